"""Correspondence of the loaders with their Coq model (Model/Loaders.v, runner function 17).

Each job is (sub-function, arguments); the implementation is run on a deep copy of the arguments, the model on their token
encoding; compared: the exception class (common.ERR_NAMES), the loaded network / component / document exactly (numbers to
1e-12 relative, everything else literally) and whether the argument object was left unchanged.
np.cos / np.sin / np.pi / np.deg2rad are oracles: the case carries np.pi as an exact rational and a table
x -> (cos x, sin x) for every phase the model will ask for (its argument computed in exact rationals)."""
import copy
import math
from fractions import Fraction

import numpy as np

from common import run_model, Toks, ERR_NAMES, t_label, t_q

FN = 17
AMBIGUOUS = set()
PI = Fraction(float(np.pi))
ERR_SET = set(ERR_NAMES.values())
KIND_NAME = {1: 'impedance', 2: 'admittance', 3: 'resistor', 4: 'conductor', 5: 'load', 6: 'voltage_source',
             7: 'current_source', 8: 'open_circuit', 9: 'short_circuit'}


# ------------------------------------------------------------------ documents <-> tokens
def enc(x):
    if x is None:
        return [0]
    if isinstance(x, bool):
        return [1, 1 if x else 0]
    if isinstance(x, (int, float, np.floating, np.integer)):
        return [2] + t_q(Fraction(x))
    if isinstance(x, str):
        return [3] + t_label(x)
    if isinstance(x, complex):
        return [4] + t_q(Fraction(x.real)) + t_q(Fraction(x.imag))
    if isinstance(x, (list, tuple)):
        out = [5, len(x)]
        for v in x:
            out += enc(v)
        return out
    if isinstance(x, dict):
        out = [6, len(x)]
        for k, v in x.items():
            out += t_label(k) + enc(v)
        return out
    raise TypeError(f'cannot encode {type(x).__name__}')


def dec(t):
    tag = t.z()
    if tag == 0:
        return None
    if tag == 1:
        return t.z() != 0
    if tag == 2:
        return t.q()
    if tag == 3:
        return t.label()
    if tag == 4:
        return ('cplx', t.q(), t.q())
    if tag == 5:
        return [dec(t) for _ in range(t.z())]
    if tag == 6:
        out = []
        for _ in range(t.z()):
            k = t.label()
            out.append((k, dec(t)))
        return ('dict', out)
    raise ValueError(f'bad document tag {tag}')


def real_of(p):
    if isinstance(p, bool):
        return Fraction(int(p))
    if isinstance(p, (int, float)) and math.isfinite(p):
        return Fraction(p)
    return None


def put(acc, key, cs):
    """one rational argument, one (cos, sin): numpy evaluates np.cos(True) in float16 and np.cos(1.0) in float64, and
    x*pi/180 differs from deg2rad(x) in the last bit; a document asking for both is marked ambiguous (not judged)"""
    old = acc.setdefault(key, cs)
    if abs(old[0] - cs[0]) > 1e-13 or abs(old[1] - cs[1]) > 1e-13:
        acc['ambiguous'] = True


def oracle(x, acc):
    """every phase the model may ask the cosine/sine of, keyed by the exact rational the model computes"""
    if isinstance(x, dict):
        for key, conv in (('phase', None), ('phase_deg', 'deg')):
            p = real_of(x.get(key)) if key in x else None
            if p is not None:
                f = x[key]             # the object itself: np.cos(True) is computed in float16
                if conv is None:
                    put(acc, p, (float(np.cos(f)), float(np.sin(f))))
                    g = f * np.pi / 180                        # to_complex(degree=True)
                    put(acc, p * PI / 180, (float(np.cos(g)), float(np.sin(g))))
                else:
                    g = np.deg2rad(f)
                    put(acc, p * PI / 180, (float(np.cos(g)), float(np.sin(g))))
        for v in x.values():
            oracle(v, acc)
    elif isinstance(x, (list, tuple)):
        for v in x:
            oracle(v, acc)
    return acc


def header(sub, *docs):
    tab = {}
    for d in docs:
        oracle(d, tab)
    if tab.pop('ambiguous', False):
        AMBIGUOUS.add(id(docs[0]))
    out = [FN, sub] + t_q(PI) + [len(tab)]
    for k, (c, s) in tab.items():
        out += t_q(k) + t_q(Fraction(c)) + t_q(Fraction(s))
    return out


# ------------------------------------------------------------------ comparison
def close(a, b, rel=1e-12):
    a, b = complex(a), complex(b)
    return abs(a - b) <= rel * max(1.0, abs(a), abs(b))


def same_doc(impl, mod):
    """implementation object vs decoded model document"""
    if impl is None or isinstance(impl, (bool, str)):
        return type(impl) is type(mod) and impl == mod
    if isinstance(impl, (int, float)):
        return isinstance(mod, Fraction) and close(impl, float(mod))
    if isinstance(impl, complex):
        return isinstance(mod, tuple) and mod[0] == 'cplx' and close(impl, complex(float(mod[1]), float(mod[2])))
    if isinstance(impl, (list, tuple)):
        return isinstance(mod, list) and len(impl) == len(mod) and all(same_doc(a, b) for a, b in zip(impl, mod))
    if isinstance(impl, dict):
        return (isinstance(mod, tuple) and mod[0] == 'dict' and [k for k, _ in mod[1]] == list(impl.keys())
                and all(same_doc(impl[k], v) for k, v in mod[1]))
    return False


def same_struct(a, b):
    if type(a) is not type(b):
        return False
    if isinstance(a, dict):
        return list(a.keys()) == list(b.keys()) and all(same_struct(a[k], b[k]) for k in a)
    if isinstance(a, (list, tuple)):
        return len(a) == len(b) and all(same_struct(x, y) for x, y in zip(a, b))
    return a == b


def exc_name(e):
    for cls in type(e).__mro__:
        if cls.__name__ in ERR_SET:
            return cls.__name__
    return 'unlisted:' + type(e).__name__


def dec_res(t, dec_ok):
    tag = t.z()
    if tag == 0:
        return ('ok', dec_ok(t))
    if tag == 1:
        return ('err', ERR_NAMES.get(t.z(), 'Other'))
    raise ValueError(f'bad result tag {tag}')


def dec_network(t):
    zero = t.label()

    def br():
        n1, n2 = t.label(), t.label()
        tag = t.z()
        name = t.label()
        kind = t.z()
        return (n1, n2, tag, name, kind, t.c(), t.c())
    return (zero, t.lst(br))


def dec_lcomp(t):
    ty, cid = t.label(), t.label()
    nodes = t.lst(t.label)
    vals = t.lst(lambda: (t.label(), dec(t)))
    return (ty, cid, nodes, vals)


def cmp_network(net, mod):
    from CircuitCalculator.Network import elements as elm
    zero, brs = mod
    if net.node_zero_label != zero or len(net.branches) != len(brs):
        return f'reference/branch count: {net.node_zero_label!r}/{len(net.branches)} vs {zero!r}/{len(brs)}'
    for b, (n1, n2, tag, name, kind, a, c) in zip(net.branches, brs):
        e = b.element
        if (b.node1, b.node2, e.name, e.type) != (n1, n2, name, KIND_NAME.get(kind)):
            return f'branch {(b.node1, b.node2, e.name, e.type)} vs {(n1, n2, name, KIND_NAME.get(kind))}'
        if isinstance(e, elm.NortenElement):
            vals, want = (e.Z, e.V), 0
        else:
            vals, want = (e.Y, e.I), 1
        if tag != want:
            return f'element class of {name}: {type(e).__name__} vs tag {tag}'
        for x, (re, im) in zip(vals, (a, c)):
            try:
                if not close(x, complex(float(re), float(im))):
                    return f'value of {name}: {x} vs {complex(float(re), float(im))}'
            except (TypeError, ValueError):
                return f'value of {name}: {x!r} is not a number'
    return None


def cmp_comp(c, mod):
    ty, cid, nodes, vals = mod
    if (c.type, c.id, list(c.nodes)) != (ty, cid, nodes):
        return f'{(c.type, c.id, list(c.nodes))} vs {(ty, cid, nodes)}'
    if list(c.value.keys()) != [k for k, _ in vals]:
        return f'value keys {list(c.value.keys())} vs {[k for k, _ in vals]}'
    for k, v in vals:
        if not same_doc(c.value[k], v):
            return f'value[{k}] = {c.value[k]!r} vs {v!r}'
    return None


# ------------------------------------------------------------------ jobs
class Job:
    def __init__(self, sub, args, what):
        self.sub, self.args, self.what = sub, args, what

    def tokens(self):
        s, a = self.sub, self.args
        if s in (1, 3, 4, 5, 7, 8):
            return header(s, a[0]) + enc(a[0])
        if s == 2:
            return header(s, a[1]) + [1 if a[0] else 0] + enc(a[1])
        if s == 6:
            return header(s, a[1]) + t_label(a[0]) + enc(a[1])
        raise ValueError(s)

    def impl(self):
        """-> (('ok', object) | ('err', name), argument unchanged?)"""
        from CircuitCalculator.Network import loaders
        from CircuitCalculator import dump_load
        from CircuitCalculator.Circuit import dump_load as cdl
        from CircuitCalculator.Circuit import components as ccp
        a = copy.deepcopy(self.args)
        s = self.sub
        try:
            if s == 1:
                r = loaders.load_network(a[0])
            elif s == 2:
                r = loaders.to_complex(a[1], degree=a[0])
            elif s == 3:
                r = dump_load.dictify_all_complex_values(a[0])
            elif s == 4:
                r = dump_load.undictify_all_complex_values(a[0])
            elif s == 5:
                r = cdl.generate_component(a[0])
            elif s == 6:
                r = getattr(ccp, a[0])(**a[1])
            elif s == 7:
                r = cdl.undictify_circuit(a[0])
            else:
                raise ValueError(s)
            out = ('ok', r)
        except Exception as e:  # noqa: BLE001 - the class is the observable
            out = ('err', exc_name(e))
        return out, same_struct(a, self.args)

    def decode(self, toks):
        t = Toks(toks)
        s = self.sub
        if toks and toks[0] < 0:
            return ('codec', toks[0]), None
        if s in (1, 8):
            r = dec_res(t, dec_network)
        elif s == 2:
            r = dec_res(t, lambda t: t.c())
        elif s == 3:
            r = ('ok', dec(t))
        elif s == 4:
            r = dec_res(t, dec)
        elif s in (5, 6):
            r = dec_res(t, dec_lcomp)
        elif s == 7:
            r = dec_res(t, lambda t: (t.lst(lambda: dec_lcomp(t)), t.label()))
        unchanged = (t.z() != 0) if s in (1, 2, 5, 8) else None
        if not t.done():
            return ('codec', 'trailing tokens'), None
        return r, unchanged

    def compare(self, impl, mod):
        """-> None or text"""
        (ir, iu), (mr, mu) = impl, mod
        if mr[0] == 'codec':
            return f'model could not decode the case ({mr[1]})'
        if mr == ('err', 'Other'):
            # EOther is never the model of an exception: it marks inputs outside the modelled domain (Model/Loaders.v header:
            # non-numeric element values, non-string identifiers, complex / list phases, ...); counted, not judged
            return 'OUT-OF-DOMAIN'
        if ir[0] != mr[0]:
            return f'implementation {ir[0]}:{ir[1] if ir[0] == "err" else type(ir[1]).__name__} vs model {mr[0]}:{mr[1] if mr[0] == "err" else ""}'
        if ir[0] == 'err':
            if ir[1] != mr[1]:
                return f'implementation raises {ir[1]}, model {mr[1]}'
        else:
            s = self.sub
            if s == 1:
                d = cmp_network(ir[1], mr[1])
            elif s == 2:
                d = None if close(ir[1], complex(float(mr[1][0]), float(mr[1][1]))) else f'{ir[1]} vs {mr[1]}'
            elif s in (3, 4):
                d = None if same_doc(ir[1], mr[1]) else f'{str(ir[1])[:150]} vs {str(mr[1])[:150]}'
            elif s in (5, 6):
                d = cmp_comp(ir[1], mr[1])
            elif s == 7:
                comps, ground = mr[1]
                d = None
                if len(comps) != len(ir[1].components) or ir[1].ground_node != ground:
                    d = f'{len(ir[1].components)} components, ground {ir[1].ground_node!r} vs {len(comps)}, {ground!r}'
                else:
                    for c, m in zip(ir[1].components, comps):
                        d = d or cmp_comp(c, m)
            if d:
                return 'loaded object differs: ' + d
        if mu is not None and iu != mu:
            return f'argument unchanged: implementation {iu}, model {mu}'
        return None


def run_jobs(ctx, jobs, prop):
    outs = run_model([j.tokens() for j in jobs])
    bad = 0
    for j, o in zip(jobs, outs):
        ctx.evaluations += 1
        ctx.count(f'model:{j.what.split(":")[0]}')
        try:
            m = j.decode(o)
        except Exception as e:  # noqa: BLE001
            m = (('codec', f'{type(e).__name__}: {e}'), None)
        im = j.impl()
        ctx.count(f'model-outcome:{im[0][0] if im[0][0] == "ok" else im[0][1]}')
        d = j.compare(im, m)
        if id(j.args[-1]) in AMBIGUOUS:
            ctx.count('model:oracle-ambiguous')
            continue
        if d == 'OUT-OF-DOMAIN':
            ctx.count('model:outside-modelled-domain')
            continue
        ctx.disagreements.append(1) if d else None
        if im[0][0] == 'ok' or j.sub in (1, 5, 6, 7):
            ctx.nontriv(['model', j.sub, j.what, repr(j.args)[:300]])
        if d:
            bad += 1
            ctx.violation(f'correspondence:{prop}-{j.what.split(":")[0]}', f'{j.what}: {d}',
                          {'obligation': 'model correspondence (Model/Loaders.v)', 'sub': j.sub, 'args': repr(j.args)[:1500]},
                          kind='obligation')
    return bad


# ------------------------------------------------------------------ generators
VALS = [1.0, 2.5, 10, 0.125, 47.0, 1e-3, 3300.0, 0.0, -4.0]
IDS = ['X', 'R1', 'Ω', 'a b', '', 'src-1']
NODES = ['0', '1', 'a', 'n2', 'β']
# kind -> (keys converted by to_complex, plain keys, optional keys)
LOADER_KEYS = {
    'resistor': ([], ['R'], []), 'conductor': ([], ['G'], []), 'impedance': (['Z'], [], []), 'admittance': (['Y'], [], []),
    'linear_current_source': (['I', 'Y'], [], []), 'current_source': (['I'], [], ['Y']),
    'real_current_source': ([], ['I'], ['Y']), 'linear_voltage_source': (['V', 'Z'], [], []),
    'voltage_source': (['V'], [], ['Z']), 'real_voltage_source': ([], ['V'], ['Z']),
    'short_circuit': ([], [], []), 'open_circuit': ([], [], []),
}


def rnd_c(rng):
    return complex(rng.choice(VALS), rng.choice(VALS))


def notation(rng, z, how):
    import cmath
    if how == 'cartesian':
        return {'real': z.real, 'imag': z.imag}
    if how == 'cartesian-rev':
        return {'imag': z.imag, 'real': z.real}
    if how == 'polar':
        return {'abs': abs(z), 'phase': cmath.phase(z)}
    if how == 'polar-extra':
        return {'phase': cmath.phase(z), 'abs': abs(z), 'unit': 'V'}
    if how == 'both':
        return {'real': z.real, 'imag': z.imag, 'abs': 7.0, 'phase': 1.0}
    raise ValueError(how)


NOTATIONS = ['cartesian', 'cartesian-rev', 'polar', 'polar-extra', 'both']


def entry(rng, kind, eid, n1, n2, how=None, optional=None):
    ck, pk, ok = LOADER_KEYS[kind]
    e = {'type': kind, 'id': eid, 'N1': n1, 'N2': n2}
    for k in ck:
        e[k] = notation(rng, rnd_c(rng), how or rng.choice(NOTATIONS))
    for k in pk:
        e[k] = rng.choice(VALS)
    for k in ok:
        if optional if optional is not None else rng.random() < 0.5:
            e[k] = rng.choice(VALS + [rnd_c(rng)])
    items = list(e.items())
    rng.shuffle(items)
    return dict(items)


def valid_description(rng, kinds, n=None):
    n = n or rng.randint(1, 4)
    nodes = rng.sample(NODES, 3)
    if '0' not in nodes:
        nodes[0] = '0'
    return [entry(rng, rng.choice(kinds), f'E{k}', rng.choice(nodes), rng.choice(nodes)) for k in range(n)]


def loader_kinds(ctx, prop):
    from CircuitCalculator.Network import loaders
    kinds = list(loaders.network_branch_translators)
    unknown = [k for k in kinds if k not in LOADER_KEYS]
    if unknown:
        ctx.violation(f'correspondence:{prop}-loader-table-changed', f'loader kinds {unknown} are unknown to the correspondence generator',
                      {'obligation': 'model correspondence', 'kinds': unknown}, kind='obligation')
    return [k for k in kinds if k in LOADER_KEYS]


def jobs_network_valid(ctx, rng, quick, prop):
    kinds = loader_kinds(ctx, prop)
    jobs = []
    for kind in kinds:
        for how in NOTATIONS if LOADER_KEYS[kind][0] else [None]:
            for opt in (True, False) if LOADER_KEYS[kind][2] else (None,):
                for n in (1, 3):
                    for pos in range(n):
                        d = [entry(rng, 'resistor', f'R{k}', '0', 'a') for k in range(n)]
                        d[pos] = entry(rng, kind, rng.choice(IDS), rng.choice(['a', '0']), rng.choice(['0', 'b']), how, opt)
                        jobs.append(Job(1, [d], f'load_network-kind:{kind}/{how}/{opt}/{pos}of{n}'))
    for _ in range(40 if quick else 1500):
        jobs.append(Job(1, [valid_description(rng, kinds)], 'load_network-random'))
    return jobs


def jobs_network_faults(ctx, rng, quick, prop):
    kinds = loader_kinds(ctx, prop)
    jobs = []
    for _ in range(12 if quick else 300):
        for fault in ('missing-N1', 'missing-N2', 'missing-id', 'missing-type', 'missing-value', 'unknown-type', 'type-not-hashable',
                      'type-number', 'duplicate-id', 'extra-key', 'name-key', 'no-reference', 'value-not-notation', 'notation-incomplete',
                      'notation-wrong-type', 'entry-not-dict', 'two-faults', 'empty'):
            d = valid_description(rng, kinds, rng.randint(1, 4))
            pos = rng.randrange(len(d))
            e = d[pos]
            ck, pk, ok = LOADER_KEYS[e['type']]
            if fault.startswith('missing-') and fault != 'missing-value':
                del e[fault[8:]]
            elif fault == 'missing-value':
                ks = [k for k in ck + pk if k in e]
                if not ks:
                    continue
                del e[rng.choice(ks)]
            elif fault == 'unknown-type':
                e['type'] = rng.choice(['resistance', 'Resistor', '', 'load', 'ground'])
            elif fault == 'type-not-hashable':
                e['type'] = rng.choice([[], {}, ['resistor']])
            elif fault == 'type-number':
                e['type'] = rng.choice([1, None, True, 2.5])
            elif fault == 'duplicate-id':
                if len(d) < 2:
                    continue
                e['id'] = d[(pos + rng.randrange(1, len(d))) % len(d)]['id']
            elif fault == 'extra-key':
                e[rng.choice(['W', 'r', 'value', 'Z', 'Y', 'V', 'I', 'R', 'G'])] = rng.choice([1.0, {'real': 1.0, 'imag': 0.0}])
            elif fault == 'name-key':
                e['name'] = rng.choice(['other', e['id']])
            elif fault == 'no-reference':
                for x in d:
                    x['N1'] = 'p' if x['N1'] == '0' else x['N1']
                    x['N2'] = 'q' if x['N2'] == '0' else x['N2']
            elif fault == 'value-not-notation':
                if not ck:
                    continue
                e[rng.choice(ck)] = rng.choice([1.0, None, 'x', [1.0, 2.0], 2 + 1j, True, {}])
            elif fault == 'notation-incomplete':
                if not ck:
                    continue
                e[rng.choice(ck)] = rng.choice([{'real': 1.0}, {'imag': 1.0}, {'abs': 1.0}, {'phase': 1.0}, {'real': 1.0, 'phase': 0.5},
                                                {'Real': 1.0, 'Imag': 2.0}])
            elif fault == 'notation-wrong-type':
                if not ck:
                    continue
                e[rng.choice(ck)] = rng.choice([{'real': '1', 'imag': 2.0}, {'real': 1.0, 'imag': None}, {'real': True, 'imag': 2.0},
                                                {'real': 1 + 1j, 'imag': 2.0}, {'real': 1.0, 'imag': 2j}, {'abs': '2', 'phase': 0.5},
                                                {'abs': 2.0, 'phase': 'x'}, {'abs': 2.0, 'phase': None}, {'abs': 1 + 1j, 'phase': 0.5},
                                                {'abs': 2.0, 'phase': True}, {'abs': None, 'phase': 0.5}, {'abs': 2.0, 'phase': {}},
                                                {'real': [1.0], 'imag': 2.0}, {'abs': -2.0, 'phase': 0.5},
                                                {'real': 'x', 'imag': 1.0, 'abs': 2.0, 'phase': 0.25}])
            elif fault == 'entry-not-dict':
                d[pos] = rng.choice([None, 5, 2.5, True, 1j])
            elif fault == 'two-faults':
                q = rng.randrange(len(d))
                d[q].pop(rng.choice(['N1', 'id', 'type']), None)
                e['type'] = 'nonsense'
            elif fault == 'empty':
                d = []
            jobs.append(Job(1, [d], f'load_network-fault:{fault}'))
    return jobs


def jobs_to_complex(rng, quick):
    import cmath
    jobs = []
    for _ in range(40 if quick else 800):
        z = rnd_c(rng)
        for deg in (False, True):
            for how in NOTATIONS:
                d = notation(rng, z, how)
                if deg and 'phase' in d:
                    d['phase'] = math.degrees(d['phase'])
                jobs.append(Job(2, [deg, d], f'to_complex:{how}/{"deg" if deg else "rad"}'))
    odd = [{'real': True, 'imag': False}, {'real': 1 + 2j, 'imag': 3.0}, {'real': 1.0, 'imag': 2 - 1j}, {'real': 1 + 1j, 'imag': 1j},
           {'real': '1', 'imag': 2.0}, {'real': None, 'imag': 2.0}, {'real': 1.0}, {}, {'abs': 2.0}, {'phase': 1.0},
           {'abs': True, 'phase': 0.5}, {'abs': 2 + 1j, 'phase': 0.5}, {'abs': 2.0, 'phase': True}, {'abs': 2.0, 'phase': 'x'},
           {'abs': 2.0, 'phase': None}, {'abs': 'x', 'phase': 1.0}, {'abs': [1.0], 'phase': 1.0}, {'abs': {}, 'phase': 1.0},
           {'abs': 2.0, 'phase': {}}, {'abs': -3.0, 'phase': 2.0}, {'real': 'a', 'imag': 'b', 'abs': 1.5, 'phase': -0.5},
           5.0, None, 'real', [1.0, 2.0], 1 + 1j, True, {'abs': 2.0, 'phase': 90}, {'abs': 2, 'phase': 180}]
    for d in odd:
        for deg in (False, True):
            jobs.append(Job(2, [deg, d], 'to_complex-odd'))
    return jobs


def gen_doc(rng, depth, faults):
    def leaf():
        r = rng.random()
        if r < 0.3:
            return rnd_c(rng)
        if r < 0.5:
            return rng.choice([1, 2.5, -3e-7, 0, 7, 1e10])
        if r < 0.65:
            return rng.choice(['a', 'resistor', '', 'real'])
        return rng.choice([True, False, None])

    def note():
        z = rnd_c(rng)
        import cmath
        r = rng.random()
        if r < 0.3:
            return {'real': z.real, 'imag': z.imag}
        if r < 0.5:
            return {'phase': cmath.phase(z), 'abs': abs(z)}
        if r < 0.7:
            return {'abs': abs(z), 'phase_deg': math.degrees(cmath.phase(z))}
        if not faults:
            return {'real': value(4), 'imag': 2.0}
        return rng.choice([{'abs': -1.0, 'phase': 0.5}, {'abs': -1.0, 'phase_deg': 10.0}, {'abs': 'x', 'phase': 0.5}, {'abs': 2.0, 'phase': 'x'},
                           {'real': 'x', 'imag': 1.0}, {'real': 1.0, 'imag': None}, {'abs': None, 'phase_deg': 3.0}, {'abs': 1.0, 'phase': None},
                           {'abs': 1j, 'phase': 0.5}, {'abs': 1.0, 'phase': {}}, {'real': {'real': 1.0, 'imag': 2.0}, 'imag': 3.0},
                           {'abs': {'real': 1.0, 'imag': 0.0}, 'phase': 0.5}, {'abs': True, 'phase': False}, {'real': [1.0], 'imag': 1.0},
                           {'abs': 0.0, 'phase': 0.5}, {'abs': 1.0, 'phase': 0.5, 'phase_deg': 4.0}, {'real': 1.0, 'imag': 2.0, 'abs': 3.0}])

    def value(d):
        r = rng.random()
        if d >= depth or r < 0.35:
            return leaf()
        if r < 0.5:
            return note()
        if r < 0.75:
            return {rng.choice(['k', 'x', 'Z', 'value', 'real', 'abs', 'imag', 'phase']) + rng.choice(['', '1', '2']): value(d + 1)
                    for _ in range(rng.randint(0, 3))}
        return [value(d + 1) for _ in range(rng.randint(0, 3))]
    return {f'key{i}': value(1) for i in range(rng.randint(0, 4))}


def jobs_documents(rng, quick, faults):
    jobs = []
    fixed = [{'a': 1 + 2j}, {'a': {'b': {'c': 1j}}}, {'l': [{'z': 2 - 1j}, {'w': [{'q': 3j}]}]}, {'l': [1, 2.5, 'x']},
             {'l': [[{'z': 1 + 1j}], [2j]]}, {'empty': {}, 'el': []}, {'real': 1.0, 'imag': 2.0}, {'v': {'real': 1.0, 'imag': 2.0}},
             [1 + 1j], 5, 'x', None, 1j, [], {}]
    docs = fixed + [gen_doc(rng, rng.randint(2, 5), faults) for _ in range(80 if quick else 3000)]
    for d in docs:
        jobs.append(Job(3, [d], 'dictify_all'))
        jobs.append(Job(4, [d], 'undictify_all' + ('-fault' if faults else '')))
        if isinstance(d, dict):
            from CircuitCalculator import dump_load
            try:
                jobs.append(Job(4, [dump_load.dictify_all_complex_values(copy.deepcopy(d))], 'undictify_all-of-dictified'))
            except Exception:  # noqa: BLE001
                pass
    return jobs


COMPONENT_ARGS = {
    'resistor': {'R': 'pos'}, 'conductance': {'G': 'pos'}, 'capacitor': {'C': 'pos'}, 'inductance': {'L': 'pos'},
    'impedance': {'Z': 'cplx'}, 'admittance': {'Y': 'cplx'},
    'dc_voltage_source': {'V': 'real', 'R': 'pos?'}, 'ac_voltage_source': {'V': 'real', 'R': 'pos?', 'w': 'pos?', 'phi': 'real?'},
    'complex_voltage_source': {'V': 'cplx', 'Z': 'cplx?'},
    'periodic_voltage_source': {'wavetype': 'wave', 'V': 'real', 'w': 'pos', 'phi': 'real?', 'R': 'pos?'},
    'dc_current_source': {'I': 'real', 'G': 'pos?'}, 'ac_current_source': {'I': 'real', 'G': 'pos?', 'w': 'pos?', 'phi': 'real?'},
    'complex_current_source': {'I': 'cplx', 'Y': 'cplx?'},
    'periodic_current_source': {'wavetype': 'wave', 'I': 'real', 'w': 'pos', 'phi': 'real', 'G': 'pos?'},
    'lamp': {'P': 'pos', 'V_ref': 'pos'}, 'resistive_load': {'P': 'pos', 'V_ref': 'pos'}, 'short_circuit': {}, 'ground': {},
}
WAVES = ['const', 'cos', 'sin', 'rect', 'tri', 'saw']


def comp_value(rng, kind, drop_optional=None):
    v = {}
    for p, t in COMPONENT_ARGS[kind].items():
        if t.endswith('?') and (drop_optional if drop_optional is not None else rng.random() < 0.4):
            continue
        t = t.rstrip('?')
        if t == 'pos':
            v[p] = rng.choice([1.0, 2.5, 10, 0.0, 1e-3, 4700.0, True])
        elif t == 'real':
            v[p] = rng.choice([1.0, -2.5, 0.0, 12, 1e-3])
        elif t == 'cplx':
            v[p] = rng.choice([rnd_c(rng), 2.5, 3, True])
        elif t == 'wave':
            v[p] = rng.choice(WAVES)
    return v


def component_functions(ctx, prop):
    import inspect
    from CircuitCalculator.Circuit import components as ccp
    fs = [n for n, f in inspect.getmembers(ccp, inspect.isfunction) if f.__module__ == ccp.__name__ and n != 'is_active'
          and not n.startswith('_')]          # private helpers are not constructors
    unknown = [f for f in fs if f not in COMPONENT_ARGS]
    if unknown:
        ctx.violation(f'correspondence:{prop}-constructors-changed', f'component constructors {unknown} are unknown to the correspondence generator',
                      {'obligation': 'model correspondence', 'constructors': unknown}, kind='obligation')
    return [f for f in fs if f in COMPONENT_ARGS]


def jobs_construct(ctx, rng, quick, prop, faults):
    jobs = []
    for f in component_functions(ctx, prop):
        for rep in range(4 if quick else 60):
            kw = dict(comp_value(rng, f, drop_optional=(rep == 0)), id=rng.choice(IDS), nodes=(rng.choice(NODES), rng.choice(NODES)))
            if f == 'ground':
                kw = rng.choice([{}, {'id': 'g'}, {'nodes': ('a',)}, {'id': 'g0', 'nodes': ['b']}])
            if not faults:
                jobs.append(Job(6, [f, kw], f'construct:{f}'))
                continue
            for p, t in COMPONENT_ARGS[f].items():
                for bad, tag in ((-1.0, 'negative'), (-1e-12, 'negative'), (0.0, 'zero'), ('x', 'string'), (None, 'none'), (1j, 'complex'),
                                 ([1.0], 'list')):
                    k2 = dict(kw)
                    k2[p] = bad
                    jobs.append(Job(6, [f, k2], f'construct-fault:{tag}'))
                k2 = dict(kw)
                k2.pop(p, None)
                jobs.append(Job(6, [f, k2], 'construct-fault:missing-parameter'))
            k2 = dict(kw, Q=1.0)
            jobs.append(Job(6, [f, k2], 'construct-fault:extra-keyword'))
            for drop in ('id', 'nodes'):
                k2 = dict(kw)
                k2.pop(drop, None)
                jobs.append(Job(6, [f, k2], 'construct-fault:missing-' + drop))
            if 'wavetype' in COMPONENT_ARGS[f]:
                for w in ('square', 'Rect', '', 5, None):
                    k2 = dict(kw, wavetype=w)
                    jobs.append(Job(6, [f, k2], 'construct-fault:unknown-wavetype'))
                k2 = dict(kw, wavetype='nonsense', w=-1.0)
                jobs.append(Job(6, [f, k2], 'construct-fault:unknown-wavetype-and-negative'))
            gs = [p for p, t in COMPONENT_ARGS[f].items() if t.startswith('pos')]
            if len(gs) >= 2:
                k2 = dict(kw)
                k2[gs[0]] = -1.0
                k2[gs[1]] = 'x'
                jobs.append(Job(6, [f, k2], 'construct-fault:negative-then-string'))
                k2 = dict(kw)
                k2[gs[1]] = -1.0
                k2[gs[0]] = 'x'
                jobs.append(Job(6, [f, k2], 'construct-fault:string-then-negative'))
    return jobs


def component_description(rng, kind):
    return {'type': kind, 'id': rng.choice(IDS), 'nodes': [rng.choice(NODES), rng.choice(NODES)], 'value': comp_value(rng, kind)}


def jobs_generate(ctx, rng, quick, prop, faults):
    from CircuitCalculator.Circuit import dump_load as cdl
    table = [k for k in cdl.circuit_component_translators if k in COMPONENT_ARGS]
    jobs = []
    for kind in table:
        for _ in range(4 if quick else 60):
            d = component_description(rng, kind)
            if not faults:
                if rng.random() < 0.3:
                    d['comment'] = 'ignored'
                jobs.append(Job(5, [d], f'generate_component:{kind}'))
                continue
            fields = ['id', 'value', 'type', 'nodes']
            for mask in range(1, 16):
                d2 = {k: v for k, v in d.items() if k not in [f for b, f in enumerate(fields) if mask >> b & 1]}
                jobs.append(Job(5, [d2], 'generate_component-fault:missing-fields'))
            for mask in range(0, 16):
                d2 = {k: v for k, v in d.items() if k not in [f for b, f in enumerate(fields) if mask >> b & 1]}
                if 'type' in d2:
                    d2['type'] = 'resistance'
                    jobs.append(Job(5, [d2], 'generate_component-fault:unknown-type-and-missing'))
            for bad in ('capacitor', 'ground', 'lamp', 'Resistor', '', 5, None, [], {}):
                jobs.append(Job(5, [dict(d, type=bad)], 'generate_component-fault:unknown-type'))
            v = d['value']
            for p in list(v):
                for b in (-1.0, 'x', None, [1.0], 1j):
                    jobs.append(Job(5, [dict(d, value=dict(v, **{p: b}))], 'generate_component-fault:bad-value'))
                jobs.append(Job(5, [dict(d, value={k: x for k, x in v.items() if k != p})], 'generate_component-fault:missing-value-key'))
            jobs.append(Job(5, [dict(d, value=dict(v, Q=1.0))], 'generate_component-fault:extra-value-key'))
            jobs.append(Job(5, [dict(d, value=dict(v, id='other'))], 'generate_component-fault:id-in-value'))
            jobs.append(Job(5, [dict(d, value=dict(v, nodes=['a', 'b']))], 'generate_component-fault:nodes-in-value'))
            for b in (5.0, None, 'R', [1.0], True):
                jobs.append(Job(5, [dict(d, value=b)], 'generate_component-fault:value-not-dict'))
    # whole circuits
    kinds_all = table
    for _ in range(30 if quick else 600):
        n = rng.randint(0, 4)
        comps = [dict(component_description(rng, rng.choice(kinds_all)), id=f'E{k}') for k in range(n)]
        what = 'undictify_circuit'
        if faults and comps:
            r = rng.random()
            what = 'undictify_circuit-fault'
            if r < 0.35 and n >= 2:
                i, j = rng.sample(range(n), 2)
                comps[j]['id'] = comps[i]['id']
            elif r < 0.5:
                comps[rng.randrange(n)]['type'] = rng.choice(['ground', 'capacitor', 'nonsense'])
            elif r < 0.65:
                del comps[rng.randrange(n)][rng.choice(['id', 'type', 'nodes', 'value'])]
            elif r < 0.8:
                c = comps[rng.randrange(n)]
                ks = [k for k, t in COMPONENT_ARGS[c['type']].items() if t.startswith('pos')]
                if ks:
                    c['value'][rng.choice(ks)] = -2.0
            elif r < 0.9:
                comps[rng.randrange(n)]['nodes'] = []
            else:
                jobs.append(Job(7, [{'parts': comps}], what))
                continue
        jobs.append(Job(7, [{'components': comps}], what))
    return jobs


def correspond_c17(ctx, rng):
    quick = ctx.tier == 'quick'
    jobs = (jobs_network_valid(ctx, rng, quick, 'C17') + jobs_to_complex(rng, quick) + jobs_documents(rng, quick, False)
            + jobs_construct(ctx, rng, quick, 'C17', False) + jobs_generate(ctx, rng, quick, 'C17', False))
    bad = run_jobs(ctx, jobs, 'C17')
    ctx.extra['model_correspondence'] = {'jobs': len(jobs), 'disagreements': bad}


def correspond_c19(ctx, rng):
    quick = ctx.tier == 'quick'
    jobs = (jobs_network_faults(ctx, rng, quick, 'C19') + jobs_documents(rng, quick, True)
            + jobs_construct(ctx, rng, quick, 'C19', True) + jobs_generate(ctx, rng, quick, 'C19', True))
    bad = run_jobs(ctx, jobs, 'C19')
    ctx.extra['model_correspondence'] = {'jobs': len(jobs), 'disagreements': bad}
