"""C18 — displayed numbers are accurate to the stated precision.

(i)  correspondence on STRINGS between the implementation (Utils.ScientificFloat / ScientificComplex, reached
     through the Display.print_* helpers wherever one exists) and the Coq model Model/Format.v (runner fn 18);
(ii) an independent oracle: the implementation's text is parsed back here and the property is evaluated on it."""
import ast
import math
import os
import random
import re
from fractions import Fraction

import common
from common import standard_prologue

RULE = ('cases = (binary64 value, precision, rendering): grid = every 1..3-digit decimal mantissa x every power of ten in '
        '[1e-15,1e15] x precision 1..6, each with its two binary64 neighbours, rendered without prefixes and with every prefix '
        'table of Display.py/Utils.py (through the print_* helper where one exists); quick = stratified sample (every '
        'decade x precision x rendering stratum, random mantissas/neighbours); thorough = the whole grid; plus random binary64 '
        'values (log-uniform 1e-25..1e25, extremes to 1e+-300, subnormals; 10% of them at precision 7..15), values around '
        '1 - 10^-p/2, complex Cartesian/polar '
        'pairs.  distinct = distinct (value, precision); non-trivial = finite non-zero value whose text is finite')

TRUSTED = [
    'Coq 8.16.1 kernel (coqc); vm_compute only inside Example witnesses and the refutation witness',
    'OCaml extraction of Model.Run.dispatch (ExtrOcamlBasic only) + hex I/O driver coq/Extract/driver.ml',
    'correspondence harness: float -> exact rational (fractions.Fraction), token codec, near-tie rule '
    '(model re-run with the exponent and/or the mantissa taken from x(1+-2^-50), entry points sci_text2/complex_text2; a '
    'difference is accepted only if one of the 8 variants reproduces the implementation text exactly)',
    'oracle parser of the rendered text (regular expression below) and its exact-rational accuracy test',
    'the model reads exact decimal digits of x where the code reads str(float)/format(float); np.round is taken as '
    'round-half-even of the exactly scaled value (near-tie rule covers the binary64 scaling error)',
    'polar rendering: np.angle is not modelled; the angle text is an input of the model',
]

# ------------------------------------------------------------------ renderings
TABLES = {
    1: {-12: 'p', -9: 'n', -6: 'u', -3: 'm', -1: 'c', 3: 'k', 6: 'M', 9: 'G', 12: 'T'},   # Utils default
    2: {-6: 'u', -3: 'm', 3: 'k'},
    3: {-3: 'm', 3: 'k', 6: 'M', 9: 'G', 12: 'T'},
    4: {-3: 'm', 3: 'k', 6: 'M', 9: 'G'},
    5: {-12: 'p', -9: 'n', -6: 'μ', -3: 'm'},
    6: {-9: 'n', -6: 'μ', -3: 'm'},
}
# name -> (use_prefix, table id, unit, kind)
CONFIGS = {
    'plain':   (False, 1, 'V', 'float'),      # ScientificFloat(v, 'V', p)
    'default': (True, 1, 'W', 'float'),       # ScientificFloat(v, 'W', p, True)           (print_active_power)
    'umk':     (True, 2, 'V', 'float'),       # Display.print_real
    'hz':      (True, 3, 'Hz', 'float'),      # table of print_sinosoidal(hertz=True)
    'ohm':     (True, 4, 'Ω', 'real'),        # Display.print_resistance   (ScientificComplex of a real)
    'cap':     (True, 5, 'F', 'float'),       # Display.print_capacitance
    'ind':     (True, 6, 'H', 'float'),       # Display.print_inductance
}
CFG_NAMES = list(CONFIGS)


def impl_text(case):
    from CircuitCalculator.Utils import ScientificFloat, ScientificComplex
    from CircuitCalculator.SimpleCircuit import Display
    k = case['kind']
    p = case['p']
    try:
        if k == 'float':
            v = float.fromhex(case['value'])
            cfg = case['cfg']
            if cfg == 'plain':
                return str(ScientificFloat(v, 'V', p))
            if cfg == 'default':
                return str(ScientificFloat(v, 'W', p, True))
            if cfg == 'umk':
                return Display.print_real(complex(v, 0.0), 'V', p)
            if cfg == 'hz':
                return str(ScientificFloat(v, 'Hz', p, True, dict(TABLES[3])))
            if cfg == 'ohm':
                return Display.print_resistance(v, p)
            if cfg == 'cap':
                return Display.print_capacitance(v, p)
            if cfg == 'ind':
                return Display.print_inductance(v, p)
        if k == 'complex':
            z = complex(float.fromhex(case['re']), float.fromhex(case['im']))
            if case['compact']:
                return Display.print_complex(z, 'V', p)
            return Display.print_impedance(z, p)
        if k == 'polar':
            z = complex(float.fromhex(case['re']), float.fromhex(case['im']))
            return Display.print_complex(z, 'V', p, polar=True, deg=case['deg'])
    except Exception as e:       # noqa: BLE001
        return 'EXC:' + type(e).__name__
    raise ValueError(k)


def fr(hexs):
    return Fraction(float.fromhex(hexs))


def model_tokens(case, se=None, sm=None):
    """token list for runner fn 18.  se/sm: optional Fraction factors (near-tie rule): the exponent is taken from x*se and
    the mantissa from x*sm (model entry points sci_text2 / complex_text2)."""
    variant = se is not None
    def q(x, s=None):
        x = x if s is None else x * s
        return [x.numerator, x.denominator]
    def q2(x):
        return q(x, se) + q(x, sm) if variant else q(x)
    k = case['kind']
    p = case['p']
    if k == 'float':
        up, tid, unit, kind = CONFIGS[case['cfg']]
        x = fr(case['value'])
        if kind == 'real':      # ScientificComplex(value=R, ...) non-compact
            return [18, 5 if variant else 1] + q2(x) + q2(Fraction(0)) + [p, 1 if up else 0, tid, 0] + common.t_label(unit)
        return [18, 4 if variant else 0] + q2(x) + [p, 1 if up else 0, tid] + common.t_label(unit)
    if k == 'complex':
        tid, unit = (2, 'V') if case['compact'] else (4, 'Ω')
        return ([18, 5 if variant else 1] + q2(fr(case['re'])) + q2(fr(case['im']))
                + [p, 1, tid, 1 if case['compact'] else 0] + common.t_label(unit))
    if k == 'polar':
        import numpy as np
        z = complex(float.fromhex(case['re']), float.fromhex(case['im']))
        a = Fraction(abs(z))
        if variant:     # magnitude only; the angle part is re-attached by the caller
            return [18, 4] + q2(a) + [p, 1, 2] + common.t_label('V')
        ang = float(np.angle(z, deg=case['deg']))
        with np.errstate(divide='ignore'):
            small = bool(np.log10(np.abs(ang)) <= (-2 if case['deg'] else -5))
        atext = f'{ang:.2f}' if case['deg'] else f'{ang:.4f}'
        return [18, 3] + q(a) + [p, 1, 2] + common.t_label('V') + [1 if small else 0, 1 if case['deg'] else 0] + common.t_label(atext)
    raise ValueError(k)


EPS = Fraction(1, 2 ** 50)
VARIANTS = [(a, b) for a in (1 - EPS, Fraction(1), 1 + EPS) for b in (1 - EPS, Fraction(1), 1 + EPS) if (a, b) != (1, 1)]


def decode_text(toks):
    if toks == [-1] or toks == [-2]:
        return 'MODEL-MALFORMED'
    return ''.join(chr(t) for t in toks)


# ------------------------------------------------------------------ oracle
NUM = re.compile(r'^(-?)(\d+)(?:\.(\d+))?(?:e(-?\d+))?$')


def parse_text(text, up, table, unit):
    """-> ('inf', neg) | ('num', neg, int_digits, frac_digits, shown_exp) | None"""
    if text == '∞':
        return ('inf', False)
    if text == '-∞':
        return ('inf', True)
    if unit:
        if not text.endswith(unit):
            return None
        text = text[:-len(unit)]
    pe = 0
    if up:
        for k, lab in table.items():
            if text.endswith(lab):
                pe = k
                text = text[:-len(lab)]
                break
    m = NUM.match(text)
    if not m:
        return None
    neg, ip, fp, ee = m.groups()
    return ('num', neg == '-', ip, fp or '', (int(ee) if ee else 0) + pe)


def sig_exponent(ax, p):
    """decimal exponent s of the p-th significant digit of ax > 0: 10^(s+p-1) <= ax < 10^(s+p)"""
    n, d = ax.numerator, ax.denominator
    # floor(log10(ax))
    e = len(str(n)) - len(str(d))
    while Fraction(10) ** e > ax:
        e -= 1
    while Fraction(10) ** (e + 1) <= ax:
        e += 1
    return e - p + 1


def in_carry_region(ax, p, tol=Fraction(0)):
    """1 - 10^-p/2 <= ax < 1 (p >= 2); tol widens the lower edge (near-tie rule: the float code sees the edge within 4 ulp)"""
    return p >= 2 and ax < 1 and ax >= (1 - Fraction(1, 2 * 10 ** p)) * (1 - tol)


FAR_BELOW = -300     # 10**exponent is no longer a normal binary64 below this; the property's range ends at min_exp >= -16


def oracle_float(x, p, up, table, unit, text):
    """x: Fraction (exact value), text: implementation output.  Returns list of (key, what)."""
    if x == 0:
        return []
    ax = abs(x)
    carry = in_carry_region(ax, p, Fraction(4, 2 ** 52))
    def key(k):
        return 'C18:carry-to-one-below-unity' if carry else k
    bad = []
    if sig_exponent(ax, p) < FAR_BELOW:
        return []       # far below the representable exponent range (10**exponent is subnormal or 0): outside the property
    if text.startswith('EXC:'):
        return [(key('C18:raises-' + text[4:]), f'rendering raises {text[4:]}')]
    pr = parse_text(text, up, table, unit)
    if pr is None:
        return [(key('C18:unparseable'), f'text {text!r} is not sign/mantissa/exponent/prefix/unit')]
    s = sig_exponent(ax, p)
    mx = max(table) if up else 16
    if pr[0] == 'inf':
        # legitimate only beyond the range: exponent of the p-th digit above max_exp -- of the value, or of the value
        # rounded to p digits when that carries into the next decade (0.0099996 -> 1e-2)
        carries = ax / Fraction(10) ** s >= (10 ** p - Fraction(1, 2)) * (1 - Fraction(4, 2 ** 52))
        if s + (1 if carries else 0) <= mx:
            bad.append((key('C18:spurious-infinity'), f'{float(x)!r} (p={p}) rendered {text!r} although 10^{s} is inside the range (max {mx})'))
        elif pr[1] != (x < 0):
            bad.append((key('C18:sign-lost'), f'infinity sign wrong for {float(x)!r}'))
        return bad
    _, neg, ip, fp, sexp = pr
    nf = len(fp)
    if nf > max(p - (0 if ip == '0' else len(ip)), 0):
        # more digits than the precision: mantissa3 = mantissa * 10**(negative) fell just below an integer in binary64,
        # int() truncated it and the fraction field rounded up to 10**positions ('3.1000...' for 4.000...).  Seen for p >= 12.
        return [('C18:fraction-field-overflow',
                 f'{float(x)!r} (p={p}) -> {text!r}: {len(ip)}+{nf} digits shown, fraction field overflowed')]
    mant = Fraction(int(ip + fp), 10 ** nf)
    val = mant * Fraction(10) ** sexp
    if sexp % 3 != 0:
        bad.append((key('C18:exponent-not-multiple-of-3'), f'{text!r}: exponent {sexp}'))
    if not (1 <= mant <= 1000):
        bad.append((key('C18:mantissa-out-of-range'), f'{float(x)!r} (p={p}) -> {text!r}: shown mantissa {float(mant)}'))
    if neg != (x < 0):
        bad.append((key('C18:sign-lost'), f'{float(x)!r} (p={p}) -> {text!r}'))
    u = Fraction(10) ** s
    scaled = ax / u
    err = abs(val - ax) / u
    if err > Fraction(1, 2):
        # near-tie rule: exactly scaled value within 4 ulp of a half-integer: accept either neighbour
        tol = scaled * Fraction(4, 2 ** 52)
        dist = abs((scaled % 1) - Fraction(1, 2))
        if not (dist <= tol and err <= Fraction(1, 2) + tol):
            bad.append((key('C18:inaccurate'), f'{float(x)!r} (p={p}) -> {text!r}: off by {float(err):.4g} units of digit {p}'))
    return bad


def oracle_complex(case, text):
    """Cartesian: split the implementation text into its parts and check signs + accuracy of each part."""
    re_x, im_x, p = fr(case['re']), fr(case['im']), case['p']
    tid, unit = (2, 'V') if case['compact'] else (4, 'Ω')
    table = TABLES[tid]
    bad = []
    if text.startswith('EXC:'):
        return [('C18:raises-' + text[4:], f'complex rendering raises {text[4:]}')]
    t = text.replace(' ', '')
    if 'j' in t:
        a, b = t.split('j', 1)
    else:
        a, b = t, None
    # a = [sign real-part] [sign]   ;  b = imaginary magnitude
    re_txt, isign = None, None
    if b is not None:
        if a.endswith('+') or a.endswith('-'):
            isign = a[-1]
            a = a[:-1]
        else:
            isign = '+'
    if a:
        re_txt = a
    mn = min(table)

    def shown_zero(v):
        return v == 0 or sig_exponent(abs(v), p) < mn
    if re_txt is not None:
        rneg = re_txt.startswith('-')
        mag = re_txt[1:] if rneg else re_txt
        if re_x != 0:
            if rneg != (re_x < 0):
                bad.append(('C18:sign-lost', f'real part sign: {complex(re_x, im_x)!r} -> {text!r}'))
            for k, w in oracle_float(abs(re_x), p, True, table, unit, mag):
                bad.append((k, 'real part: ' + w))
    elif not shown_zero(re_x) and not in_carry_region(abs(re_x), p):
        bad.append(('C18:part-dropped', f'real part missing: {complex(re_x, im_x)!r} -> {text!r}'))
    if b is not None:
        if im_x != 0:
            if (isign == '-') != (im_x < 0):
                bad.append(('C18:sign-lost', f'imaginary part sign: {complex(re_x, im_x)!r} -> {text!r}'))
            for k, w in oracle_float(abs(im_x), p, True, table, unit, b):
                bad.append((k, 'imaginary part: ' + w))
    elif not shown_zero(im_x) and not in_carry_region(abs(im_x), p):
        bad.append(('C18:part-dropped', f'imaginary part missing: {complex(re_x, im_x)!r} -> {text!r}'))
    return bad


# ------------------------------------------------------------------ case generation
def fcase(v, p, cfg):
    return {'kind': 'float', 'value': float(v).hex(), 'p': p, 'cfg': cfg}


def grid_value(m, k, variant, neg):
    v = float(f'{m}e{k}')
    if variant == 1:
        v = math.nextafter(v, math.inf)
    elif variant == 2:
        v = math.nextafter(v, 0.0)
    return -v if neg else v


def special_values():
    out = []
    for p in range(1, 7):
        edge = 1 - 0.5 * 10.0 ** -p
        for v in (edge, math.nextafter(edge, 0), math.nextafter(edge, 1), 1 - 0.4 * 10.0 ** -p, math.nextafter(1.0, 0),
                  -0.99996, 0.99996, 0.0099996, 9.9996e-7, 0.09999999999999999, 999.9996, 99999.96):
            out.append((v, p))
            out.append((-v, p))
    for v in (0.0, -0.0, 1e16, 1e17, 9.99e18, 1e19, 1e20, -1e19, 1e-16, 1e-17, 1e-19, 1e-20, 5e-324, 2.2250738585072014e-308,
              1.7976931348623157e308, 1e300, 1e-300, 123456789.0, 0.000123456, 1e22, 1e23, 1e-5, 9.5e-5, 0.001, 0.01, 0.1):
        for p in (1, 3, 4, 6):
            out.append((v, p))
    # high precision: mantissa3 = mantissa * 10**(negative) lands just below an integer in binary64 (seen for p >= 12)
    for v, p in ((4e15, 12), (-0.008, 12), (0.001, 12), (1.6e-05, 13), (4.73e17, 14), (0.008, 11), (4e15, 10)):
        out.append((v, p))
    return out


def random_value(rng):
    r = rng.random()
    if r < 0.8:
        v = rng.choice([1, -1]) * 10 ** rng.uniform(-25, 25)
    elif r < 0.9:
        v = rng.choice([1, -1]) * 10 ** rng.uniform(-300, 300)
    elif r < 0.95:
        v = rng.choice([1, -1]) * round(10 ** rng.uniform(-6, 9), rng.randint(0, 6))     # short decimals
    else:
        v = rng.choice([1, -1]) * rng.randint(1, 10 ** rng.randint(1, 16)) / 10 ** rng.randint(0, 20)
    return v


def gen_cases(ctx):
    rng = random.Random(ctx.seed * 7919 + 18)
    quick = ctx.tier == 'quick'
    for v, p in special_values():
        for cfg in CFG_NAMES:
            yield 'special', fcase(v, p, cfg)
    if quick:
        per_stratum = 15
        for k in range(-15, 16):
            for p in range(1, 7):
                for cfg in CFG_NAMES:
                    for _ in range(per_stratum):
                        m = rng.choice([rng.randint(1, 9), rng.randint(10, 99), rng.randint(100, 999), rng.randint(1, 999)])
                        yield 'grid', fcase(grid_value(m, k, rng.randrange(3), rng.random() < 0.2), p, cfg)
    else:
        for k in range(-15, 16):
            for m in range(1, 1000):
                for variant in range(3):
                    neg = ((m * 31 + k * 7 + variant) % 5) == 0
                    v = grid_value(m, k, variant, neg)
                    for p in range(1, 7):
                        for cfg in CFG_NAMES:
                            yield 'grid', fcase(v, p, cfg)
    n_rand = 1500 if quick else 150000
    for _ in range(n_rand):
        yield 'random', fcase(random_value(rng), rng.randint(1, 6) if rng.random() < 0.9 else rng.randint(7, 15), rng.choice(CFG_NAMES))
    n_cplx = 600 if quick else 40000
    for _ in range(n_cplx):
        def part():
            r = rng.random()
            if r < 0.1:
                return 0.0
            if r < 0.2:
                return rng.choice([1, -1]) * 10 ** rng.uniform(-12, -5)
            if r < 0.6:
                return grid_value(rng.randint(1, 999), rng.randint(-8, 8), rng.randrange(3), rng.random() < 0.5)
            return rng.choice([1, -1]) * 10 ** rng.uniform(-8, 8)
        re_, im_ = part(), part()
        p = rng.randint(1, 6)
        if rng.random() < 0.85:
            yield 'complex', {'kind': 'complex', 're': float(re_).hex(), 'im': float(im_).hex(), 'p': p,
                              'compact': rng.random() < 0.6}
        elif re_ != 0 or im_ != 0:
            yield 'polar', {'kind': 'polar', 're': float(re_).hex(), 'im': float(im_).hex(), 'p': p, 'deg': rng.random() < 0.5}


# ------------------------------------------------------------------ examination
def source_tables():
    """every dict literal handed to exp_prefixes in Display.py / Utils.py (so that a new table cannot go unmodelled)"""
    found = []
    for rel in ('SimpleCircuit/Display.py', 'Utils.py'):
        src = open(os.path.join(common.SRC, 'CircuitCalculator', rel), encoding='utf-8').read()
        for node in ast.walk(ast.parse(src)):
            d = None
            if isinstance(node, ast.keyword) and node.arg == 'exp_prefixes' and isinstance(node.value, ast.Dict):
                d = node.value
            if isinstance(node, ast.Lambda) and isinstance(node.body, ast.Dict):
                d = node.body
            if d is not None:
                try:
                    found.append((rel, ast.literal_eval(d)))
                except ValueError:
                    found.append((rel, None))
    return found


def examine(ctx, tagged, batch=120000):
    buf = []
    def flush():
        if not buf:
            return
        cases = [c for _, c in buf]
        impl = [impl_text(c) for c in cases]
        model = [decode_text(t) for t in common.run_model([model_tokens(c) for c in cases])]
        retry = [i for i in range(len(cases)) if impl[i] != model[i] and not impl[i].startswith('EXC:')]
        alt = {}
        if retry:
            lines = []
            for i in retry:
                for se, sm in VARIANTS:
                    lines.append(model_tokens(cases[i], se, sm))
            outs = common.run_model(lines)
            nv = len(VARIANTS)
            for j, i in enumerate(retry):
                texts = [decode_text(o) for o in outs[nv * j: nv * (j + 1)]]
                if cases[i]['kind'] == 'polar':
                    rest = model[i][model[i].index('∠'):] if '∠' in model[i] else ''
                    texts = [t + rest for t in texts]
                alt[i] = texts
        for i, ((origin, case), it, mt) in enumerate(zip(buf, impl, model)):
            ctx.evaluations += 1
            ctx.count('stream:' + origin)
            ctx.count('p:' + str(min(case['p'], 7)))
            kind = case['kind']
            if kind == 'float':
                up, tid, unit, ckind = CONFIGS[case['cfg']]
                ctx.count('render:' + case['cfg'])
                x = fr(case['value'])
                if x != 0:
                    ax = abs(x)
                    ctx.count('decade:%+03d' % max(-30, min(30, sig_exponent(ax, 1))))
                    if in_carry_region(ax, case['p']):
                        ctx.count('in-carry-region')
                text = it
                if ckind == 'real' and not it.startswith('EXC:'):
                    # ScientificComplex of a real: '- ' sign prefix
                    text = it.replace('- ', '-', 1) if it.startswith('- ') else it
                bad = oracle_float(x, case['p'], up, TABLES[tid], unit, text)
                if x != 0 and '∞' not in it and not it.startswith('EXC:'):
                    ctx.nontriv([case['value'], case['p']])
                elif '∞' in it:
                    ctx.count('outcome:infinity')
            elif kind == 'complex':
                ctx.count('render:complex-' + ('compact' if case['compact'] else 'spaced'))
                bad = oracle_complex(case, it)
                ctx.nontriv([case['re'], case['im'], case['p']])
            else:
                ctx.count('render:polar-' + ('deg' if case['deg'] else 'rad'))
                bad = []
                z = complex(float.fromhex(case['re']), float.fromhex(case['im']))
                mag = it.split('∠')[0]
                if not it.startswith('EXC:'):
                    bad = [(k, 'magnitude: ' + w) for k, w in oracle_float(Fraction(abs(z)), case['p'], True, TABLES[2], 'V', mag)]
            if it != mt and kind == 'float' and fr(case['value']) != 0 and \
                    sig_exponent(abs(fr(case['value'])), case['p']) < FAR_BELOW:
                ctx.count('far-below-range(10**exponent subnormal/underflows: impl raises or loses digits; outside the property; not compared)')
            elif it != mt and any(k == 'C18:fraction-field-overflow' for k, _ in bad):
                ctx.count('impl-fraction-field-overflow(binary64 truncation, not modelled; reported by the oracle; not compared)')
            elif it != mt:
                if i in alt and it in alt[i]:
                    ctx.count('near-tie-accepted(model re-run with exponent/mantissa taken from x(1+-2^-50))')
                else:
                    ctx.disagreements.append(case)
                    ctx.violation('correspondence:C18-string', f'model and implementation texts differ: impl {it!r} model {mt!r}',
                                  {'case': case, 'impl': it, 'model': mt}, kind='obligation')
            for key, what in bad:
                ctx.violation(key, what, {'case': case, 'impl': it})
            ctx.sample({'case': case, 'impl': it, 'model': mt}, cap=4)
        buf.clear()
    for item in tagged:
        buf.append(item)
        if len(buf) >= batch:
            flush()
    flush()


def check_tables(ctx):
    known = [TABLES[i] for i in TABLES]
    for rel, d in source_tables():
        if d is None or d not in known:
            ctx.violation('correspondence:C18-tables', f'{rel} passes a prefix table that the model does not carry: {d!r}',
                          {'case': {'kind': 'table', 'file': rel, 'table': repr(d)}}, kind='obligation')
    ctx.count('source-prefix-tables-checked', len(source_tables()))


def setup(ctx):
    ctx.trusted = TRUSTED
    ctx.partial = ['C18_accuracy / C18_rendered_accurate exclude 1 - 10^-p/2 <= |x| < 1 with p >= 2 (C18_carry_defect, '
                   'C18_refuted show the code is wrong there); polar angle text is an input of the model']
    ctx.assumptions = ['binary64 inputs are compared through their exact rational values',
                       'float scaling error of value/10**exponent is covered by the near-tie rule (4 ulp)']


def run(ctx):
    setup(ctx)
    ok = standard_prologue(ctx)
    if ok:
        check_tables(ctx)
        examine(ctx, gen_cases(ctx))
    return RULE


def replay(ctx, obj):
    setup(ctx)
    ok = standard_prologue(ctx)
    if ok:
        case = obj['case']['case']
        if case.get('kind') == 'table':
            check_tables(ctx)
        else:
            examine(ctx, [('replay', case)])
    return RULE
