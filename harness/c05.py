"""C05 — power is conserved and has the physically right sign (network level + circuit level)."""
import random

import c01
import netgen
import netrun
from common import standard_prologue
from exact import spec_solution

RULE = ('cases = C01 streams (corpus, bounded-exhaustive sample, structured random); for every well-posed case the complex '
        'powers reported by the implementation are summed (linear sources counted as delivered), each power is compared '
        'with v*conj(i) of the same solution and with the exact value; resistors/conductors with positive value must '
        'dissipate |I|^2 R >= 0.  Circuit-level forms (RMS, peak 1/2, DC, L/C reactive signs) are exercised through '
        'ComplexSolution/DCSolution on RLC circuits.  non-trivial = well-posed, >=1 source, >=2 non-reference nodes')

TRUSTED = c01.TRUSTED


def network_oracle(case, impl, exact, cond):
    bad = []
    if exact is None or 'exc' in impl or cond > 1e8:
        return bad
    sv, si, sp = netrun.scales(exact, case)
    tol = max(1e-9, cond * 2e-14) * 8
    tot = 0
    for b in case['branches']:
        i = b['id']
        p = impl['p'][i]
        if abs(p - impl['v'][i] * impl['i'][i].conjugate()) > tol * sp:
            bad.append(('C05:power-not-v-conj-i', f'power of {i!r} is not v*conj(i)'))
            break
        lin = exact['laws'][i][3]
        tot += -p if lin else p
        if b['ctor'] in ('resistor', 'conductor') and b['args'][0][0] > 0 and b['args'][0][1] == 0:
            R = b['args'][0][0] if b['ctor'] == 'resistor' else 1 / b['args'][0][0]
            if abs(p.imag) > tol * sp or p.real < -tol * sp or abs(p.real - abs(impl['i'][i]) ** 2 * R) > tol * sp:
                bad.append(('C05:resistor-power-sign', f'resistor {i!r}: P={p}, |I|^2 R={abs(impl["i"][i]) ** 2 * R}'))
                break
    if abs(tot) > tol * sp * max(4, len(case['branches'])):
        bad.append(('C05:power-balance', f'sum of complex powers = {tot} (scale {sp})'))
    return bad


def examine(ctx, tagged):
    cases = [c for _, c in tagged]
    impls = [netrun.impl_solve(c) for c in cases]
    models = netrun.model_solve(cases)
    for (origin, case), impl, model in zip(tagged, impls, models):
        ctx.evaluations += 1
        ctx.count('stream:' + origin)
        exact = spec_solution(case)
        cond = netrun.mna_cond(case) if exact is not None else float('inf')
        if exact is None:
            ctx.count('ill-posed(excluded)')
            continue
        if cond > 1e8:
            ctx.count('ill-conditioned(skipped)')
            continue
        ctx.count('well-posed')
        if c01.has_source(case) and netgen.shape(case)['nodes'] >= 3:
            ctx.nontriv(netgen.canon(case))
        # correspondence of get_power
        if 'exc' not in impl and 'exc' not in model:
            sv, si, sp = netrun.scales(exact, case)
            tol = max(1e-9, cond * 2e-14) * 8
            for b in case['branches']:
                r = model['p'][b['id']]
                if r[0] != 'ok' or not netrun.compare_numbers(impl['p'][b['id']], netrun.cq_to_c(r[1]), sp, tol):
                    ctx.disagreements.append(case)
                    ctx.violation('correspondence:C05-get_power', f'get_power({b["id"]!r}): impl {impl["p"][b["id"]]} model {r}',
                                  {'network': case}, kind='obligation')
                    break
        elif impl.get('exc') != model.get('exc'):
            ctx.violation('correspondence:C05-get_power', f'impl {impl.get("exc")} vs model {model.get("exc")}',
                          {'network': case}, kind='obligation')
        for key, what in network_oracle(case, impl, exact, cond):
            def pred(c, key=key):
                e = spec_solution(c)
                return e is not None and any(k == key for k, _ in network_oracle(c, netrun.impl_solve(c), e, netrun.mna_cond(c)))
            ctx.violation(key, what, {'network': netrun.shrink(case, pred)})
        ctx.sample({'network': case, 'powers': {k: str(v) for k, v in impl.get('p', {}).items()}}, cap=3)


def run(ctx):
    ctx.trusted = TRUSTED
    ctx.assumptions = ['LAPACK backward stability']
    if standard_prologue(ctx):
        examine(ctx, c01.gen_cases(ctx))
        try:
            import c05_circuit
            c05_circuit.examine(ctx)
        except ImportError:
            ctx.partial.append('circuit-level power forms (RMS/peak/DC/time) not yet exercised')
    return RULE


def replay(ctx, obj):
    ctx.trusted = TRUSTED
    if standard_prologue(ctx):
        if 'network' in obj['case']:
            examine(ctx, [('replay', obj['case']['network'])])
        else:
            import c05_circuit
            c05_circuit.replay(ctx, obj)
    return RULE
