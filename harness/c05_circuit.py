"""C05, circuit level: the power formula of every solution kind (RMS v*conj(i), peak 1/2 v*conj(i), DC v*i, time-domain and transient
v(t)*i(t)), reactive sign of L and C, on the implementation's own v and i."""
import random

import numpy as np

import circgen
import circrun
import ssrun


def examine(ctx):
    from CircuitCalculator.Circuit import solution as sol
    rng = random.Random(ctx.seed + 55)
    n = 25 if ctx.tier == 'quick' else 500
    for _ in range(n):
        case = circgen.random_circuit(rng, max_nodes=4, max_extra=2, kinds_source=['dc_voltage_source', 'ac_voltage_source', 'ac_current_source',
                                                                                    'periodic_voltage_source', 'dc_current_source'])
        try:
            circuit, comps = circrun.build_impl(case)
        except Exception:  # noqa: BLE001
            continue
        ids = [c['id'] for c in case['components'] if c['kind'] != 'ground']
        rep = {'circuit': case}
        ws = sorted({c['params']['w'] for c in case['components'] if 'w' in c['params']} | {0.0})
        for w in ws[:2]:
            for peak in (True, False):
                ctx.evaluations += 1
                try:
                    s = sol.ComplexSolution(circuit, w=w, peak_values=peak)
                    # signs are judged on the power scale of the whole circuit (the power of an element that carries only rounding noise,
                    # e.g. an inductor at DC behind a uA source, has no sign)
                    pscale = max([abs(complex(s.get_power(i))) for i in ids] + [1e-12])
                    for i in ids:
                        v, c, p = complex(s.get_voltage(i)), complex(s.get_current(i)), complex(s.get_power(i))
                        want = v * c.conjugate() * (0.5 if peak else 1.0)
                        if abs(p - want) > 1e-9 * max(abs(want), 1e-12):
                            ctx.violation('C05:complex-power-formula', f'{"peak" if peak else "RMS"} power of {i!r}: {p}, v*conj(i){"/2" if peak else ""} = {want}',
                                          dict(rep, w=w, peak=peak))
                            break
                        kind = next(c_['kind'] for c_ in case['components'] if c_['id'] == i)
                        sc = pscale
                        if kind == 'inductance' and (abs(p.real) > 1e-9 * sc or p.imag < -1e-9 * sc):
                            ctx.violation('C05:inductor-power-sign', f'{i!r}: {p}', dict(rep, w=w))
                        if kind == 'capacitor' and (abs(p.real) > 1e-9 * sc or p.imag > 1e-9 * sc):
                            ctx.violation('C05:capacitor-power-sign', f'{i!r}: {p}', dict(rep, w=w))
                        if kind == 'resistor' and (abs(p.imag) > 1e-9 * sc or p.real < -1e-9 * sc):
                            ctx.violation('C05:resistor-power-sign', f'{i!r}: {p}', dict(rep, w=w))
                except Exception:  # noqa: BLE001
                    pass
        try:
            ctx.evaluations += 1
            d = sol.DCSolution(circuit)
            for i in ids:
                if abs(d.get_power(i) - d.get_voltage(i) * d.get_current(i)) > 1e-9 * max(abs(d.get_power(i)), 1e-12):
                    ctx.violation('C05:dc-power-formula', f'{i!r}', rep)
                    break
        except Exception:  # noqa: BLE001
            pass
        try:
            ctx.evaluations += 1
            td = sol.TimeDomainSolution(circuit, w_max=3 * max(ws))
            ts = np.array([0.0, 0.013, 0.37, 1.9])
            for i in ids:
                p = np.asarray(td.get_power(i)(ts), dtype=float)
                vi = np.asarray(td.get_voltage(i)(ts), dtype=float) * np.asarray(td.get_current(i)(ts), dtype=float)
                if np.max(np.abs(p - vi)) > 1e-9 * max(np.max(np.abs(vi)), 1e-12):
                    ctx.violation('C05:time-domain-power-not-v-times-i', f'{i!r}: p(t) = {p}, v(t)*i(t) = {vi} ({len(td.w)} frequency components)', rep)
                    break
            if len(td.w) >= 2:
                ctx.count('time-domain:multi-frequency')
        except Exception:  # noqa: BLE001
            pass
    for _ in range(6 if ctx.tier == 'quick' else 100):
        case = ssrun.gen_circuit(rng)
        if not ssrun.nondegenerate(case):
            continue
        ctx.evaluations += 1
        circuit = circgen.impl_circuit(case)
        t = np.linspace(0, 1.0, 60)
        try:
            tr = sol.TransientSolution(circuit, tin=t, input={s: (lambda x: np.minimum(3 * x, 1.0)) for s in ssrun.sources_of(case)})
            for c in case['components']:
                if c['kind'] == 'ground':
                    continue
                p = np.asarray(tr.get_power(c['id'])[1])
                vi = np.asarray(tr.get_voltage(c['id'])[1]) * np.asarray(tr.get_current(c['id'])[1])
                if np.max(np.abs(p - vi)) > 1e-9 * max(np.max(np.abs(vi)), 1e-12):
                    ctx.violation('C05:transient-power-not-v-times-i', f'{c["id"]!r}', {'circuit': case})
                    break
        except Exception:  # noqa: BLE001
            pass


def replay(ctx, obj):
    examine(ctx)
