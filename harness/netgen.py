"""Network cases: JSON-able descriptions, generators (corpus / bounded-exhaustive / structured random),
conversion to implementation objects and to model tokens."""
import itertools
import json
import os
import random

from common import t_label, t_c, t_list, REPO

CTORS = ['resistor', 'conductor', 'impedance', 'admittance', 'voltage_source', 'current_source',
         'open_circuit', 'short_circuit', 'load_v', 'load_i']
CTOR_CODE = {'impedance': 1, 'admittance': 2, 'resistor': 3, 'conductor': 4, 'voltage_source': 5, 'current_source': 6,
             'open_circuit': 7, 'short_circuit': 8, 'load_v': 9, 'load_i': 10}

# label pool built to interleave kinds alphabetically and numerically ('10' < '9', upper < lower, non-ASCII)
NODE_POOL = ['0', '1', '10', '2', '9', 'A', 'B', 'a', 'b', 'gnd', 'n1', 'N2', 'Ω', 'x', '', ' ']
ID_POOL = ['10', '9', 'A', 'Is', 'Iq', 'L1', 'R', 'R1', 'R10', 'R2', 'Vs', 'Uq', 'a', 'b', 'Ω', 'Z', 'z', 'C1', 'G', '_', '0']

REAL_VALUES = [1, 2, 3, 5, 10, 20, 50, 100, 1000, 0.5, 0.25, 0.125, 4.5, 1 / 1024, 8192, 47, 330]
DECIMAL_VALUES = [0.1, 0.3, 4.7, 0.001, 2.2e3, 1e-3, 1e4, 0.047]


def cx(z):
    z = complex(z)
    return [z.real, z.imag]


def uncx(a):
    return complex(a[0], a[1])


def rnd_real(rng, decimal=False):
    if decimal and rng.random() < 0.3:
        return rng.choice(DECIMAL_VALUES)
    return rng.choice(REAL_VALUES)


def rnd_val(rng, cplx, sign=False, decimal=False):
    v = rnd_real(rng, decimal)
    if sign and rng.random() < 0.4:
        v = -v
    if cplx and rng.random() < 0.5:
        im = rnd_real(rng, decimal) * rng.choice([-1, 1])
        return complex(v, im)
    return complex(v, 0)


KINDS = ['R', 'G', 'Z', 'Y', 'V', 'I', 'LV', 'LI', 'load', 'loadi', 'open', 'short']


def mk_branch(rng, kind, bid, n1, n2, cplx=True, decimal=False):
    r = lambda c=False, s=False: cx(rnd_val(rng, c and cplx, s, decimal))
    if kind == 'R':
        return {'id': bid, 'n1': n1, 'n2': n2, 'ctor': 'resistor', 'args': [r()]}
    if kind == 'G':
        return {'id': bid, 'n1': n1, 'n2': n2, 'ctor': 'conductor', 'args': [r()]}
    if kind == 'Z':
        return {'id': bid, 'n1': n1, 'n2': n2, 'ctor': 'impedance', 'args': [r(True)]}
    if kind == 'Y':
        return {'id': bid, 'n1': n1, 'n2': n2, 'ctor': 'admittance', 'args': [r(True)]}
    if kind == 'V':
        return {'id': bid, 'n1': n1, 'n2': n2, 'ctor': 'voltage_source', 'args': [r(True, True), [0.0, 0.0]]}
    if kind == 'I':
        return {'id': bid, 'n1': n1, 'n2': n2, 'ctor': 'current_source', 'args': [r(True, True), [0.0, 0.0]]}
    if kind == 'LV':
        return {'id': bid, 'n1': n1, 'n2': n2, 'ctor': 'voltage_source', 'args': [r(True, True), r(True)]}
    if kind == 'LI':
        return {'id': bid, 'n1': n1, 'n2': n2, 'ctor': 'current_source', 'args': [r(True, True), r(True)]}
    if kind == 'load':
        return {'id': bid, 'n1': n1, 'n2': n2, 'ctor': 'load_v', 'args': [r(True), r()]}
    if kind == 'loadi':
        return {'id': bid, 'n1': n1, 'n2': n2, 'ctor': 'load_i', 'args': [r(True), r()]}
    if kind == 'open':
        return {'id': bid, 'n1': n1, 'n2': n2, 'ctor': 'open_circuit', 'args': []}
    if kind == 'short':
        return {'id': bid, 'n1': n1, 'n2': n2, 'ctor': 'short_circuit', 'args': []}
    raise ValueError(kind)


def random_network(rng, max_nodes=8, max_branches=14, kinds=None, cplx=None, pool_labels=True, decimal=False,
                   weights=None):
    kinds = kinds or KINDS
    nn = rng.randint(2, max_nodes)
    if pool_labels and rng.random() < 0.7:
        nodes = rng.sample(NODE_POOL, nn)
    else:
        nodes = [str(i) for i in range(nn)]
    if cplx is None:
        cplx = rng.random() < 0.5
    edges = []
    order = list(nodes)
    rng.shuffle(order)
    for i in range(1, nn):                       # spanning tree
        edges.append((order[i], order[rng.randrange(i)]))
    extra = rng.randint(0, max(0, max_branches - (nn - 1)))
    extra = min(extra, rng.randint(0, 6))
    for _ in range(extra):
        if edges and rng.random() < 0.25:        # parallel branch
            a, b = rng.choice(edges)
        else:
            a, b = rng.sample(nodes, 2)
        edges.append((a, b))
    edges = [(a, b) if rng.random() < 0.5 else (b, a) for a, b in edges]
    rng.shuffle(edges)
    if pool_labels and rng.random() < 0.7:
        ids = rng.sample(ID_POOL, len(edges)) if len(edges) <= len(ID_POOL) else [f'e{k}' for k in range(len(edges))]
    else:
        ids = None
    brs = []
    for k, (a, b) in enumerate(edges):
        kind = rng.choices(kinds, weights=weights)[0] if weights else rng.choice(kinds)
        bid = ids[k] if ids else f'{kind}{k}'
        brs.append(mk_branch(rng, kind, bid, a, b, cplx, decimal))
    case = {'zero': rng.choice(nodes), 'branches': brs}
    if rng.random() < 0.2:
        rescale_impedances(case, rng.choice([1e3, 1e5, 1e7, 1e-3, 2.0 ** 20]))
    return case


def rescale_impedances(case, f):
    """multiply every impedance by f and divide every admittance by f (voltages unchanged, currents / f): several decades of
    impedance level — the determinant of the nodal matrix scales with f^-n, a solution must not"""
    for b in case['branches']:
        c, a = b['ctor'], b['args']
        def mul(x, k):
            return [x[0] * k, x[1] * k]
        if c in ('resistor', 'impedance'):
            a[0] = mul(a[0], f)
        elif c in ('conductor', 'admittance'):
            a[0] = mul(a[0], 1 / f)
        elif c == 'voltage_source':
            a[1] = mul(a[1], f)
        elif c == 'current_source':
            a[0] = mul(a[0], 1 / f)
            a[1] = mul(a[1], 1 / f)
        elif c == 'load_v':
            a[0] = mul(a[0], 1 / f)
        elif c == 'load_i':
            a[0] = mul(a[0], f)
    return case


def small_exhaustive(max_nodes=3, max_branches=3, kinds=('R', 'G', 'V', 'I', 'LV', 'LI', 'load', 'Z', 'Y')):
    """All connected multigraphs on nodes 0..n-1 with up to max_branches branches (either terminal order,
    every reference node), every kind assignment, fixed distinct values."""
    vals = {'R': [[2.0, 0.0]], 'G': [[0.25, 0.0]], 'Z': [[3.0, 4.0]], 'Y': [[0.5, -0.25]],
            'V': [[5.0, 1.0], [0.0, 0.0]], 'I': [[-2.0, 0.5], [0.0, 0.0]],
            'LV': [[7.0, 0.0], [2.0, 1.0]], 'LI': [[1.0, -1.0], [0.125, 0.0]], 'load': [[10.0, 0.0], [5.0, 0.0]]}
    ctor = {'R': 'resistor', 'G': 'conductor', 'Z': 'impedance', 'Y': 'admittance', 'V': 'voltage_source',
            'I': 'current_source', 'LV': 'voltage_source', 'LI': 'current_source', 'load': 'load_v'}
    for nn in range(2, max_nodes + 1):
        nodes = [str(i) for i in range(nn)]
        pairs = [(a, b) for a in nodes for b in nodes if a != b]
        for nb in range(1, max_branches + 1):
            for edges in itertools.combinations_with_replacement(pairs, nb):
                touched = {x for e in edges for x in e}
                if len(touched) != nn:
                    continue
                # connectivity
                comp = {edges[0][0]}
                ch = True
                while ch:
                    ch = False
                    for a, b in edges:
                        if (a in comp) != (b in comp):
                            comp |= {a, b}
                            ch = True
                if len(comp) != nn:
                    continue
                for ks in itertools.product(kinds, repeat=nb):
                    for z in nodes:
                        brs = []
                        for k, ((a, b), kd) in enumerate(zip(edges, ks)):
                            v = [list(map(float, x)) for x in vals[kd]]
                            # make values distinct per position
                            v = [[x[0] * (k + 1), x[1] * (k + 1)] for x in v]
                            brs.append({'id': f'{kd}{k}', 'n1': a, 'n2': b, 'ctor': ctor[kd], 'args': v})
                        yield {'zero': z, 'branches': brs}


def corpus_networks():
    """the shipped example networks (translated to case form) + saved minimised failures"""
    out = []
    root = os.path.join(REPO, 'examples', 'test-networks', '01_json-network')
    def tc(z):
        if isinstance(z, dict):
            if 'real' in z:
                return [float(z['real']), float(z['imag'])]
            import cmath
            return cx(cmath.rect(z['abs'], z['phase']))
        return [float(z), 0.0]
    if os.path.isdir(root):
        for fn in sorted(os.listdir(root)):
            if not fn.endswith('.json'):
                continue
            try:
                ents = json.load(open(os.path.join(root, fn)))
                brs = []
                for e in ents:
                    t = e['type']
                    b = {'id': e['id'], 'n1': e['N1'], 'n2': e['N2']}
                    if t == 'resistor':
                        b.update(ctor='resistor', args=[tc(e['R'])])
                    elif t == 'conductor':
                        b.update(ctor='conductor', args=[tc(e['G'])])
                    elif t == 'impedance':
                        b.update(ctor='impedance', args=[tc(e['Z'])])
                    elif t in ('voltage_source', 'real_voltage_source', 'linear_voltage_source'):
                        b.update(ctor='voltage_source', args=[tc(e['V']), tc(e.get('Z', 0))])
                    elif t in ('current_source', 'real_current_source', 'linear_current_source'):
                        b.update(ctor='current_source', args=[tc(e['I']), tc(e.get('Y', 0))])
                    elif t == 'short_circuit':
                        b.update(ctor='short_circuit', args=[])
                    elif t == 'open_circuit':
                        b.update(ctor='open_circuit', args=[])
                    else:
                        raise KeyError(t)
                    brs.append(b)
                out.append({'zero': '0', 'branches': brs, 'origin': fn})
            except (KeyError, ValueError, TypeError):
                continue
    cdir = os.path.join(os.path.dirname(os.path.dirname(os.path.abspath(__file__))), 'corpus')
    p = os.path.join(cdir, 'networks.json')
    if os.path.exists(p):
        out += json.load(open(p))
    return out


# ------------------------------------------------------------------ to implementation / to tokens
def impl_element(b):
    from CircuitCalculator.Network import elements as elm
    c = b['ctor']
    a = [uncx(x) for x in b['args']]
    def realish(z):
        return z.real if z.imag == 0 else z
    if c == 'resistor':
        return elm.resistor(b['id'], realish(a[0]))
    if c == 'conductor':
        return elm.conductor(b['id'], realish(a[0]))
    if c == 'impedance':
        return elm.impedance(b['id'], realish(a[0]))
    if c == 'admittance':
        return elm.admittance(b['id'], realish(a[0]))
    if c == 'voltage_source':
        return elm.voltage_source(b['id'], realish(a[0]), realish(a[1]))
    if c == 'current_source':
        return elm.current_source(b['id'], realish(a[0]), realish(a[1]))
    if c == 'open_circuit':
        return elm.open_circuit(b['id'])
    if c == 'short_circuit':
        return elm.short_circuit(b['id'])
    if c == 'load_v':
        return elm.load(b['id'], P=a[0].real, Q=a[0].imag, V_ref=a[1].real)
    if c == 'load_i':
        return elm.load(b['id'], P=a[0].real, Q=a[0].imag, I_ref=a[1].real)
    if c == 'raw_zv':
        return elm.NortenElement(name=b['id'], type=b.get('kind', 'impedance'), Z=realish(a[0]), V=realish(a[1]))
    if c == 'raw_yi':
        return elm.TheveninElement(name=b['id'], type=b.get('kind', 'admittance'), Y=realish(a[0]), I=realish(a[1]))
    raise ValueError(c)


KIND_CODE = {'impedance': 1, 'admittance': 2, 'resistor': 3, 'conductor': 4, 'load': 5, 'voltage_source': 6,
             'current_source': 7, 'open_circuit': 8, 'short_circuit': 9}
KIND_NAME = {v: k for k, v in KIND_CODE.items()}


def element_to_case(e, n1=None, n2=None):
    """implementation element object -> raw case branch (exact field values)"""
    from CircuitCalculator.Network import elements as elm
    if isinstance(e, elm.NortenElement):
        d = {'id': e.name, 'ctor': 'raw_zv', 'kind': e.type, 'args': [cx(e.Z), cx(e.V)]}
    else:
        d = {'id': e.name, 'ctor': 'raw_yi', 'kind': e.type, 'args': [cx(e.Y), cx(e.I)]}
    if n1 is not None:
        d['n1'] = n1
        d['n2'] = n2
    return d


def network_to_case(net):
    return {'zero': net.node_zero_label, 'branches': [element_to_case(b.element, b.node1, b.node2) for b in net.branches]}


def impl_network(case):
    from CircuitCalculator.Network.network import Network, Branch
    return Network([Branch(b['n1'], b['n2'], impl_element(b)) for b in case['branches']], case['zero'])


def tok_elem(b):
    if b['ctor'] in ('raw_zv', 'raw_yi'):
        t = [11 if b['ctor'] == 'raw_zv' else 12] + t_label(b['id']) + [KIND_CODE.get(b.get('kind'), 0)]
    else:
        t = [CTOR_CODE[b['ctor']]] + t_label(b['id'])
    for a in b['args']:
        t += t_c(uncx(a))
    return t


def tok_branch(b):
    return t_label(b['n1']) + t_label(b['n2']) + tok_elem(b)


def tok_network(case):
    return t_label(case['zero']) + t_list(case['branches'], tok_branch)


def canon(case):
    """canonical relabelling: nodes and ids replaced by first-occurrence indices (for distinctness counting)"""
    nm = {}
    def nn(x):
        return nm.setdefault(x, len(nm))
    return [nn(case['zero'])] + [[nn(b['n1']), nn(b['n2']), b['ctor'], b['args']] for b in case['branches']]


def shape(case):
    kinds = sorted({b['ctor'] for b in case['branches']})
    nodes = {b['n1'] for b in case['branches']} | {b['n2'] for b in case['branches']}
    return {'nodes': len(nodes), 'branches': len(case['branches']), 'kinds': kinds}
