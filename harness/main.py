"""Entry point: ./check Cxx [--tier quick|thorough] [--replay path]"""
import argparse
import importlib
import json
import os
import sys

sys.path.insert(0, os.path.dirname(os.path.abspath(__file__)))
import common  # noqa: E402


def main():
    ap = argparse.ArgumentParser()
    ap.add_argument('prop')
    ap.add_argument('--tier', default=os.environ.get('VERIF_TIER', 'quick'))
    ap.add_argument('--replay')
    a = ap.parse_args()
    tier = os.environ.get('VERIF_TIER') or a.tier
    if tier not in ('quick', 'thorough'):
        tier = 'quick'
    try:
        seed = int(os.environ.get('VERIF_SEED', '0'))
    except ValueError:
        seed = 0
    common.pin_environment()
    mod = importlib.import_module(a.prop.lower())
    ctx = common.Ctx(a.prop, tier, seed)
    import signal

    def on_alarm(signum, frame):
        raise TimeoutError(f'check exceeded its time budget ({budget} s): the implementation is far slower than on the unchanged tree or does not terminate')
    budget = int(os.environ.get('VERIF_BUDGET_S', '1500' if tier == 'quick' else '28000'))
    signal.signal(signal.SIGALRM, on_alarm)
    signal.alarm(budget)
    try:
        if a.replay:
            obj = json.load(open(a.replay))
            try:
                rule = mod.replay(ctx, obj)
                understood = ctx.evaluations > 0 or bool(ctx.violations)
            except (KeyError, TypeError, AttributeError, IndexError):
                understood = False
            if not understood:
                # a replay object of a stream that has no targeted replay (or an obligation-level one): the deterministic full run at the
                # recorded seed and tier re-creates the same cases
                ctx = common.Ctx(a.prop, obj.get('tier', tier) if isinstance(obj, dict) else tier, obj.get('seed', seed) if isinstance(obj, dict) else seed)
                ctx.notes.append('replay object not handled by the targeted replay: full run at the recorded seed')
                rule = mod.run(ctx)
        else:
            rule = mod.run(ctx)
    except Exception:  # noqa: BLE001 - a crash of the harness means the property is no longer shown to hold on this tree
        import traceback
        tb = traceback.format_exc()
        print(tb[-1500:])
        ctx.violation('harness:unexpected-exception', 'the check itself raised while exercising the implementation (an output shape or '
                      'exception the harness does not anticipate): ' + tb.strip().split('\n')[-1][:200],
                      {'obligation': 'harness run', 'traceback': tb[-3000:]}, kind='obligation')
        rule = getattr(mod, 'RULE', '')
    sys.exit(ctx.finish(rule))


if __name__ == '__main__':
    main()
