"""C06 — port behaviour: driving-point impedance and Thevenin/Norton equivalents."""
import copy
import random

import numpy as np

import circgen
import circrun
import netgen
import netrun
from common import standard_prologue
from exact import spec_solution, CQ

RULE = ('cases = (network, ordered node pair / element): well-posed random networks of C01 (ideal and lossy sources included, networks '
        'with ideal voltage sources away from the port, nodes hanging on open branches), every ordered node pair (sampled), every '
        'element, every reference node (sampled), random load impedances; RLC circuits over a frequency sweep through the '
        'Circuit.impedance wrappers.  Oracle (harness, exact rationals): deactivate every source declaratively (ideal V -> short, '
        'ideal I -> open, lossy -> internal immittance), inject 1 A from the second into the first node, read the voltage.  Checked: '
        'open_circuit_impedance and element_impedance vs the oracle; symmetry; independence of the reference node; 0 for identical nodes '
        'and across an ideal voltage source; Voc, Isc = Voc/Zth; attaching Z_L gives Voc*Z_L/(Zth+Z_L) (library solver on the loaded '
        'network); TheveninEquivalentSource/NortenEquivalentSource; jwL / 1/(jwC) over frequency.  distinct = distinct (canonical network, '
        'port); non-trivial = finite non-zero port impedance in a network with >= 3 nodes')

TRUSTED = [
    'Coq 8.16.1 kernel; extraction (ExtrOcamlBasic only) + hex driver',
    'numpy.linalg.solve backward stable on the decided-non-singular systems met; exact rational tableau as oracle',
    'correspondence harness',
]


def zeroed(case):
    out = {'zero': case['zero'], 'branches': []}
    for b in case['branches']:
        b2 = {'id': b['id'], 'n1': b['n1'], 'n2': b['n2']}
        a = b['args']
        if b['ctor'] == 'voltage_source':
            if a[1] == [0.0, 0.0]:
                b2.update(ctor='short_circuit', args=[])
            else:
                b2.update(ctor='impedance', args=[a[1]])
        elif b['ctor'] == 'current_source':
            if a[1] == [0.0, 0.0]:
                b2.update(ctor='open_circuit', args=[])
            else:
                b2.update(ctor='admittance', args=[a[1]])
        else:
            b2.update(ctor=b['ctor'], args=copy.deepcopy(a))
        out['branches'].append(b2)
    return out


def port_impedance(case, a, b):
    """exact driving-point impedance between a and b, or None when undefined (singular with the probe)"""
    if a == b:
        return CQ(0)
    z = zeroed(case)
    z['zero'] = b
    z['branches'].append({'id': '\x00probe', 'n1': b, 'n2': a, 'ctor': 'current_source', 'args': [[1.0, 0.0], [0.0, 0.0]]})
    sol = spec_solution(z)
    if sol is None:
        return None
    return sol['phi'][a] - sol['phi'][b]


def examine_network(ctx, case, rng):
    from CircuitCalculator.Network.NodalAnalysis import node_analysis as na
    from CircuitCalculator.Network.NodalAnalysis import bias_point_analysis as bpa
    from CircuitCalculator.Network import transformers as trf
    exact = spec_solution(case)
    if exact is None:
        ctx.count('ill-posed(excluded)')
        return
    net = netgen.impl_network(case)
    nodes = sorted({b['n1'] for b in case['branches']} | {b['n2'] for b in case['branches']})
    pairs = [(a, b) for a in nodes for b in nodes]
    rng.shuffle(pairs)
    for a, b in pairs[:6]:
        ctx.evaluations += 1
        rep = {'network': case, 'node1': a, 'node2': b}
        want = port_impedance(case, a, b)
        if want is None:
            ctx.count('port-undefined(excluded)')
            continue
        zc = zeroed(case)
        zc['zero'] = b
        cond = netrun.mna_cond({'zero': b, 'branches': zc['branches'] + [{'id': 'p', 'n1': b, 'n2': a, 'ctor': 'current_source', 'args': [[1.0, 0.0], [0.0, 0.0]]}]})
        if cond > 1e8:
            ctx.count('ill-conditioned(skipped)')
            continue
        tol = max(1e-9, cond * 1e-13)
        w = complex(want)
        try:
            got = complex(na.open_circuit_impedance(net, a, b))
        except Exception as e:  # noqa: BLE001
            ctx.violation(f'C06:open_circuit_impedance-raises-{type(e).__name__}', f'Z({a!r},{b!r}) raised {type(e).__name__}: {str(e)[:80]}; exact {w}', rep)
            continue
        scale = max(abs(w), 1e-12)
        if abs(w) == 0:
            scale = 1.0          # exact zero reached through the solver: absolute tolerance (also for the checks below)
        if abs(got - w) > tol * scale:
            has_ivs = any(x['ctor'] == 'voltage_source' and x['args'][1] == [0.0, 0.0] for x in case['branches'])
            key = 'C06:wrong-port-impedance' + (':ideal-voltage-source-in-network' if has_ivs else '')
            small = netrun.shrink(case, lambda c, a=a, b=b: wrong_port(c, a, b))
            ctx.violation(key, f'Z({a!r},{b!r}) = {got}, exact {w}', {'network': small, 'node1': a, 'node2': b})
            continue
        if len(nodes) >= 3 and abs(w) > 0:
            ctx.nontriv([netgen.canon(case), a, b])
        # symmetry
        try:
            rev = complex(na.open_circuit_impedance(net, b, a))
            if abs(rev - got) > tol * scale:
                ctx.violation('C06:not-symmetric', f'Z({a!r},{b!r}) = {got} but Z({b!r},{a!r}) = {rev}', rep)
        except Exception as e:  # noqa: BLE001
            ctx.violation(f'C06:open_circuit_impedance-raises-{type(e).__name__}', f'reversed port raised', rep)
        # reference node independence
        g = rng.choice(nodes)
        try:
            other = complex(na.open_circuit_impedance(trf.switch_ground_node(net, g), a, b))
            if abs(other - got) > tol * scale:
                ctx.violation('C06:depends-on-reference-node', f'Z({a!r},{b!r}) = {got} with reference {case["zero"]!r}, {other} with {g!r}', rep)
        except Exception as e:  # noqa: BLE001
            ctx.violation(f'C06:open_circuit_impedance-raises-{type(e).__name__}', f'after switching the reference to {g!r}', rep)
        # Thevenin / Norton
        if a != b and abs(w) > 1e-9 and np.isfinite(abs(w)):
            try:
                voc = complex(bpa.open_circuit_voltage(net, a, b))
                vex = complex(exact['phi'][a] - exact['phi'][b])
                vs = max(abs(vex), max(abs(complex(x)) for x in exact['phi'].values()), 1e-12)
                if abs(voc - vex) > tol * vs * 10:
                    ctx.violation('C06:wrong-open-circuit-voltage', f'Voc({a!r},{b!r}) = {voc}, exact {vex}', rep)
                isc = complex(bpa.short_circuit_current(net, a, b))
                if abs(isc - vex / w) > tol * 10 * max(abs(vex / w), vs / abs(w)):
                    ctx.violation('C06:wrong-short-circuit-current', f'Isc = {isc}, Voc/Zth = {vex / w}', rep)
                zl = complex(rng.choice([1.0, 10.0, 0.5, 100.0]), rng.choice([0.0, 2.0, -5.0]))
                loaded = copy.deepcopy(case)
                loaded['branches'].append({'id': '__load__', 'n1': a, 'n2': b, 'ctor': 'impedance', 'args': [[zl.real, zl.imag]]})
                if spec_solution(loaded) is not None and abs(w + zl) > 1e-6 * (abs(w) + abs(zl)):
                    ls = bpa.nodal_analysis_bias_point_solver(netgen.impl_network(loaded))
                    vl = complex(ls.get_voltage('__load__'))
                    pred = voc * zl / (got + zl)
                    if abs(vl - pred) > 1e-6 * max(abs(pred), vs):
                        ctx.violation('C06:thevenin-equivalent-wrong', f'load {zl}: V = {vl}, Voc*ZL/(Zth+ZL) = {pred}', dict(rep, load=[zl.real, zl.imag]))
            except Exception as e:  # noqa: BLE001
                ctx.violation(f'C06:equivalent-raises-{type(e).__name__}', str(e)[:100], rep)
    # element impedance
    for b in rng.sample(case['branches'], min(3, len(case['branches']))):
        ctx.evaluations += 1
        rest = {'zero': case['zero'], 'branches': [x for x in case['branches'] if x['id'] != b['id']]}
        touched = {x['n1'] for x in rest['branches']} | {x['n2'] for x in rest['branches']}
        if case['zero'] not in touched or b['n1'] not in touched or b['n2'] not in touched:
            continue
        want = port_impedance(rest, b['n1'], b['n2'])
        if want is None:
            continue
        rep = {'network': case, 'element': b['id']}
        try:
            got = complex(na.element_impedance(net, b['id']))
        except Exception as e:  # noqa: BLE001
            ctx.violation(f'C06:element_impedance-raises-{type(e).__name__}', f'element {b["id"]!r}: {str(e)[:80]}; exact {complex(want)}', rep)
            continue
        zr = zeroed(rest)
        econd = netrun.mna_cond({'zero': b['n2'], 'branches': zr['branches'] + [{'id': 'p', 'n1': b['n2'], 'n2': b['n1'], 'ctor': 'current_source', 'args': [[1.0, 0.0], [0.0, 0.0]]}]})
        if econd > 1e8:
            ctx.count('ill-conditioned(skipped)')
            continue
        if abs(got - complex(want)) > max(1e-7, econd * 1e-13) * max(abs(complex(want)), 1e-9 if abs(complex(want)) > 0 else 1.0):
            ctx.violation('C06:wrong-element-impedance', f'seen by {b["id"]!r}: {got}, exact {complex(want)}', rep)


def component_port_impedance(case, a, b):
    """exact driving-point impedance on the deactivated network after dropping open branches, restricted to the connected component of a:
    -> CQ value | 'inf' (b is not connected to a) | None (undefined inside the component).  Nodes that hang on open branches only (isolated
    once the sources are deactivated) do not matter to the port."""
    if a == b:
        return CQ(0)
    z = zeroed(case)
    live = [x for x in z['branches'] if x['ctor'] != 'open_circuit']
    comp, grew = {a}, True
    while grew:
        grew = False
        for x in live:
            if (x['n1'] in comp) != (x['n2'] in comp):
                comp |= {x['n1'], x['n2']}
                grew = True
    if b not in comp:
        return 'inf'
    sub = {'zero': b, 'branches': [x for x in live if x['n1'] in comp and x['n2'] in comp]}
    sub['branches'].append({'id': '\x00probe', 'n1': b, 'n2': a, 'ctor': 'current_source', 'args': [[1.0, 0.0], [0.0, 0.0]]})
    sol = spec_solution(sub)
    if sol is None:
        return None
    return sol['phi'][a] - sol['phi'][b]


ISO_CORE = ['1', '5', 'B', 'b', 'n2', 'm']
ISO_EXTRA = ['0', '#', '2', '9', 'A', 'a', 'zz', '~', 'n1', 'n3']      # sort before, between and after the core labels


def isolated_node_network(rng):
    """a connected passive core plus nodes that hang on open branches / ideal current sources only; the reference node may be one of them"""
    core = rng.sample(ISO_CORE, rng.randint(2, 4))
    extra = rng.sample(ISO_EXTRA, rng.randint(1, 2))
    brs, k = [], 0

    def passive(n1, n2):
        nonlocal k
        k += 1
        kind = rng.choice(['R', 'R', 'Z', 'G'])
        if kind == 'R':
            return {'id': f'R{k}', 'n1': n1, 'n2': n2, 'ctor': 'resistor', 'args': [[rng.choice([1.0, 2.0, 10.0, 47.0, 0.5]), 0.0]]}
        if kind == 'G':
            return {'id': f'G{k}', 'n1': n1, 'n2': n2, 'ctor': 'conductor', 'args': [[rng.choice([0.5, 0.1, 2.0]), 0.0]]}
        return {'id': f'Z{k}', 'n1': n1, 'n2': n2, 'ctor': 'impedance', 'args': [[rng.choice([1.0, 5.0]), rng.choice([-2.0, 3.0])]]}
    order = list(core)
    rng.shuffle(order)
    for i in range(1, len(order)):
        brs.append(passive(order[i], order[rng.randrange(i)]))
    for _ in range(rng.randint(0, 2)):
        if len(core) >= 2:
            brs.append(passive(*rng.sample(core, 2)))
    for x in extra:
        for _ in range(rng.randint(1, 2)):
            k += 1
            other = rng.choice(core + [e for e in extra if e != x])
            n1, n2 = (x, other) if rng.random() < 0.5 else (other, x)
            if rng.random() < 0.6:
                brs.append({'id': f'O{k}', 'n1': n1, 'n2': n2, 'ctor': 'open_circuit', 'args': []})
            else:
                brs.append({'id': f'I{k}', 'n1': n1, 'n2': n2, 'ctor': 'current_source', 'args': [[0.0, 0.0], [0.0, 0.0]]})
    rng.shuffle(brs)
    return {'zero': rng.choice(core + extra + extra), 'branches': brs}, core, extra


def examine_isolated(ctx, rng, n):
    """ports of networks with nodes that are isolated once the sources are deactivated (the deleted-rows path of open_circuit_impedance)"""
    from CircuitCalculator.Network.NodalAnalysis import node_analysis as na
    from CircuitCalculator.Network import transformers as trf
    known = {'zero': 'zz', 'branches': [{'id': 'Z1', 'n1': 'n2', 'n2': '1', 'ctor': 'impedance', 'args': [[5.0, 3.0]]},
                                        {'id': 'O3', 'n1': 'n3', 'n2': 'n2', 'ctor': 'open_circuit', 'args': []},
                                        {'id': 'O2', 'n1': '1', 'n2': 'zz', 'ctor': 'open_circuit', 'args': []}]}
    stream = [(known, ['n2', '1'], ['zz', 'n3'])] + [isolated_node_network(rng) for _ in range(n)]
    for idx, (case, core, extra) in enumerate(stream):
        try:
            net = netgen.impl_network(case)
        except Exception as e:  # noqa: BLE001
            ctx.count(f'isolated-stream:network-refused-{type(e).__name__}')
            continue
        nodes = core + extra
        pairs = [(a, b) for a in nodes for b in nodes if a != b]
        rng.shuffle(pairs)
        if idx == 0:
            pairs = [('n2', 'zz'), ('zz', 'n2'), ('n2', '1'), ('1', 'n2')]       # the recorded finding, deliberately, and its finite neighbours
        for a, b in pairs[:6]:
            ctx.evaluations += 1
            want = component_port_impedance(case, a, b)
            if want is None:
                ctx.count('isolated-stream:port-undefined(excluded)')
                continue
            rep = {'network': case, 'node1': a, 'node2': b}
            vals = {}
            for tag, nn, (p, q) in (('', net, (a, b)), (' reversed', net, (b, a))) + tuple(
                    (f' with reference {g!r}', None, (a, b)) for g in rng.sample(nodes, min(2, len(nodes)))):
                try:
                    if nn is None:
                        nn = trf.switch_ground_node(net, tag.split("'")[1]) if "'" in tag else net
                    vals[tag] = complex(na.open_circuit_impedance(nn, p, q))
                except Exception as e:  # noqa: BLE001
                    ctx.violation(f'C06:open_circuit_impedance-raises-{type(e).__name__}', f'Z({p!r},{q!r}){tag}: {str(e)[:80]}', rep)
                    vals = None
                    break
            if vals is None:
                continue
            ctx.count('isolated-stream:ports-compared')
            for tag, got in vals.items():
                if isinstance(want, str):
                    ok = not np.isfinite(abs(got))
                else:
                    w = complex(want)
                    ok = np.isfinite(abs(got)) and abs(got - w) <= 1e-9 * max(abs(w), 1e-3)
                if not ok:
                    if isinstance(want, str) and abs(got) > 1e12:
                        # recorded finding: the two nodes are not connected, the system is singular, and LAPACK does not always notice
                        ctx.violation('C06:disconnected-port-not-infinite', f'Z({a!r},{b!r}){tag} = {got}: the nodes are not connected (exact: infinite); '
                                      f'the singular system was solved with rounding noise instead of being recognised', rep)
                    else:
                        ctx.violation('C06:wrong-port-impedance:isolated-nodes', f'Z({a!r},{b!r}){tag} = {got}, exact '
                                      f'{want if isinstance(want, str) else complex(want)} (nodes {extra} hang on open branches / ideal current sources only)', rep)
                    break
            else:
                if not isinstance(want, str):
                    ctx.nontriv(['isolated', netgen.canon(case), a, b])


def wrong_port(case, a, b):
    from CircuitCalculator.Network.NodalAnalysis import node_analysis as na
    nodes = {x['n1'] for x in case['branches']} | {x['n2'] for x in case['branches']}
    if a not in nodes or b not in nodes or spec_solution(case) is None:
        return False
    want = port_impedance(case, a, b)
    if want is None:
        return False
    try:
        got = complex(na.open_circuit_impedance(netgen.impl_network(case), a, b))
    except Exception:  # noqa: BLE001
        return False
    return abs(got - complex(want)) > 1e-7 * max(abs(complex(want)), 1e-9)


def examine_equivalents(ctx):
    ctx.evaluations += 1
    try:
        from CircuitCalculator.Network.equivalent_sources import TheveninEquivalentSource, NortenEquivalentSource
    except Exception as e:  # noqa: BLE001
        ctx.violation(f'C06:equivalent_sources-not-importable', f'import CircuitCalculator.Network.equivalent_sources: {type(e).__name__}: {e}', {'module': 'Network.equivalent_sources'})
        return
    case = {'zero': '0', 'branches': [
        {'id': 'V', 'n1': '1', 'n2': '0', 'ctor': 'voltage_source', 'args': [[10.0, 0.0], [0.0, 0.0]]},
        {'id': 'R1', 'n1': '1', 'n2': '2', 'ctor': 'resistor', 'args': [[10.0, 0.0]]},
        {'id': 'R2', 'n1': '2', 'n2': '0', 'ctor': 'resistor', 'args': [[20.0, 0.0]]}]}
    net = netgen.impl_network(case)
    try:
        th = TheveninEquivalentSource(net, '2', '0')
        no = NortenEquivalentSource(net, '2', '0')
        zth = 20.0 * 10.0 / 30.0
        if abs(th.U - 10 * 20 / 30) > 1e-9 or abs(th.Z - zth) > 1e-9 or abs(no.I - (10 * 20 / 30) / zth) > 1e-9 or abs(no.Y - 1 / zth) > 1e-9:
            ctx.violation('C06:equivalent-source-values', f'divider 10V,10,20: U={th.U} Z={th.Z} I={no.I} Y={no.Y}', {'network': case})
    except Exception as e:  # noqa: BLE001
        ctx.violation(f'C06:equivalent-raises-{type(e).__name__}', str(e)[:100], {'network': case})


def examine_circuit_sweep(ctx, rng, n):
    from CircuitCalculator.Circuit import impedance as cimp
    import ssrun
    from fractions import Fraction as F
    done = 0
    while done < n:
        case = ssrun.gen_circuit(rng)
        if not ssrun.nondegenerate(case):
            continue
        done += 1
        circuit = circgen.impl_circuit(case)
        nodes = sorted({x for c in case['components'] for x in c['nodes']})
        a, b = rng.sample(nodes, 2) if len(nodes) >= 2 else (nodes[0], nodes[0])
        # also frequencies closer than 1e-3 within one sweep; the sweep goes up and down again, so two frequencies occur twice
        ws = [0.0, 0.5, 3.0, 3.0 + 2.0 ** -12, 3.0 + 2.0 ** -11, 40.0, 40.0 - 2.0 ** -11, 3.0, 0.5]
        try:
            got = np.asarray(cimp.open_circuit_impedance(circuit, a, b, np.array(ws)), dtype=complex)
        except Exception as e:  # noqa: BLE001
            got = None
            err = e
        if got is not None and got.shape != (len(ws),):
            ctx.violation('C06:sweep-result-not-aligned-with-the-frequencies', f'Z({a!r},{b!r}) over {len(ws)} frequencies {ws} has shape {got.shape}',
                          {'circuit': case, 'node1': a, 'node2': b, 'w': ws})
            continue
        for k, w in enumerate(ws):
            ctx.evaluations += 1
            pn = ssrun.phasor_network(case, w)
            want = port_impedance(pn, a, b)
            if want is None:
                continue
            zc = zeroed(pn)
            if netrun.mna_cond({'zero': b, 'branches': zc['branches'] + [{'id': 'p', 'n1': b, 'n2': a, 'ctor': 'current_source', 'args': [[1.0, 0.0], [0.0, 0.0]]}]}) > 1e8:
                continue
            rep = {'circuit': case, 'node1': a, 'node2': b, 'w': w}
            if got is None:
                ctx.violation(f'C06:circuit-impedance-raises-{type(err).__name__}', f'{str(err)[:80]}', rep)
                break
            zscale = max([abs(complex(want))] + [c['params']['R'] * 1e-6 for c in case['components'] if c['kind'] == 'resistor'] + [1e-9])
            if abs(got[k] - complex(want)) > 1e-7 * zscale:
                ctx.violation('C06:wrong-circuit-impedance', f'Z({a!r},{b!r}) at w={w}: {got[k]}, exact {complex(want)}', rep)
                break
            if w == 0.0:
                try:
                    r = cimp.open_circuit_dc_resistance(circuit, a, b)
                    if abs(r - complex(want).real) > 1e-7 * zscale:      # same scale floor as the sweep: an exact zero is compared on the circuit's own ohmic scale
                        ctx.violation('C06:wrong-dc-resistance', f'{r} vs {complex(want).real}', rep)
                except Exception as e:  # noqa: BLE001
                    ctx.violation(f'C06:circuit-impedance-raises-{type(e).__name__}', 'open_circuit_dc_resistance', rep)
        # the impedance seen by an element over the same up-and-down sweep: one value per listed frequency, in the listed order, each equal
        # to the value of a sweep of that frequency alone and to the port impedance of the rest of the circuit at the element's terminals
        passive = [c for c in case['components'] if c['kind'] in ('resistor', 'capacitor', 'inductance')]
        for c in rng.sample(passive, min(1, len(passive))):
            rep = {'circuit': case, 'element': c['id'], 'w': ws}
            try:
                swept = np.asarray(cimp.element_impedance(circuit, c['id'], np.array(ws)), dtype=complex)
                single = [complex(cimp.element_impedance(circuit, c['id'], np.array([w]))[0]) for w in ws]
            except Exception as e:  # noqa: BLE001
                ctx.count(f'element-sweep:raises-{type(e).__name__}(not judged here)')
                continue
            ctx.evaluations += 1
            if swept.shape != (len(ws),):
                ctx.violation('C06:sweep-result-not-aligned-with-the-frequencies', f'impedance seen by {c["id"]!r} over {len(ws)} frequencies has shape '
                              f'{swept.shape}', rep)
                continue
            for k, w in enumerate(ws):
                same = swept[k] == single[k] or (np.isnan(swept[k]) and np.isnan(single[k])) or \
                    abs(swept[k] - single[k]) <= 1e-9 * abs(single[k])
                if not same:
                    ctx.violation('C06:sweep-result-not-aligned-with-the-frequencies', f'impedance seen by {c["id"]!r}: entry {k} (w={w}) of the sweep is '
                                  f'{swept[k]}, a sweep of that frequency alone gives {single[k]}', rep)
                    break
                pn = ssrun.phasor_network(case, w)
                rest = {'zero': pn['zero'], 'branches': [x for x in pn['branches'] if x['id'] != c['id']]}
                touched = {x['n1'] for x in rest['branches']} | {x['n2'] for x in rest['branches']}
                if pn['zero'] not in touched or c['nodes'][0] not in touched or c['nodes'][1] not in touched:
                    continue
                want = port_impedance(rest, c['nodes'][0], c['nodes'][1])
                if want is None or isinstance(want, str):
                    continue
                zr = zeroed(rest)
                if netrun.mna_cond({'zero': c['nodes'][1], 'branches': zr['branches'] + [{'id': 'p', 'n1': c['nodes'][1], 'n2': c['nodes'][0],
                                                                                         'ctor': 'current_source', 'args': [[1.0, 0.0], [0.0, 0.0]]}]}) > 1e8:
                    continue
                zscale = max([abs(complex(want))] + [x['params']['R'] * 1e-6 for x in case['components'] if x['kind'] == 'resistor'] + [1e-9])
                if abs(single[k] - complex(want)) > 1e-7 * zscale:
                    ctx.violation('C06:wrong-circuit-element-impedance', f'seen by {c["id"]!r} at w={w}: {single[k]}, exact {complex(want)}',
                                  dict(rep, w=w))
                    break
                if w == 0.0:
                    try:
                        r = cimp.element_dc_resistance(circuit, c['id'])
                        if abs(r - complex(want).real) > 1e-7 * zscale:
                            ctx.violation('C06:wrong-dc-resistance', f'element_dc_resistance({c["id"]!r}) = {r} vs {complex(want).real}', dict(rep, w=0.0))
                    except Exception as e:  # noqa: BLE001
                        ctx.violation(f'C06:circuit-impedance-raises-{type(e).__name__}', 'element_dc_resistance', dict(rep, w=0.0))


def run(ctx):
    ctx.trusted = TRUSTED
    ctx.assumptions = ['ports whose impedance is undefined (test current has no return path) are counted and excluded']
    if standard_prologue(ctx):
        rng = random.Random(ctx.seed + 6)
        quick = ctx.tier == 'quick'
        examine_equivalents(ctx)
        for c in netgen.corpus_networks():
            examine_network(ctx, c, rng)
        for _ in range(120 if quick else 3000):
            examine_network(ctx, netgen.random_network(rng, max_nodes=5, max_branches=8,
                                                       kinds=['R', 'R', 'G', 'Z', 'Y', 'V', 'I', 'LV', 'LI', 'open', 'load']), rng)
        examine_isolated(ctx, rng, 60 if quick else 1500)
        examine_circuit_sweep(ctx, rng, 20 if quick else 400)
        try:
            import portmodel
            portmodel.correspond(ctx, rng)
        except ImportError:
            ctx.partial.append('model correspondence of open_circuit_impedance not yet wired')
    return RULE


def replay(ctx, obj):
    ctx.trusted = TRUSTED
    if standard_prologue(ctx):
        c = obj['case']
        if 'network' in c:
            examine_network(ctx, c['network'], random.Random(0))
        else:
            run(ctx)
    return RULE
