"""C16 — network simplifications are electrical identities."""
import copy
import random

import netgen
import netrun
import trfrun
from common import standard_prologue
from exact import spec_solution

RULE = ('cases = (network, operation, argument): structured random networks with a resistive spanning tree, augmented with '
        'chains/stars/trees of short circuits, parallel shorts, shorts on the reference node, open circuits (some isolating a '
        'node), random exemption lists (exact copies, or same-name elements with another value); each of the nine public '
        'transformers.  distinct = distinct (canonical network, op, argument); non-trivial = original well-posed, >=1 source '
        'and the operation changes the branch list')

TRUSTED = [
    'Coq 8.16.1 kernel (coqc); extraction of Model.Run.dispatch (ExtrOcamlBasic only) + hex I/O driver',
    'correspondence harness (generators, codec, exact comparison of branch lists; values compared to 1e-10 relative)',
    'exact rational tableau solver in the harness (fractions.Fraction) used by the electrical-identity oracle',
    'Python dataclass equality for `element in keep` is modelled by elem_eqb (same class, numerically equal fields)',
]


def gen_network(rng):
    nn = rng.randint(2, 6)
    pool = rng.random() < 0.5
    nodes = rng.sample(netgen.NODE_POOL, nn) if pool else [str(i) for i in range(nn)]
    brs = []
    k = 0
    def add(kind, a, b):
        nonlocal k
        k += 1
        brs.append(netgen.mk_branch(rng, kind, f'{kind}{k}', a, b, cplx=rng.random() < 0.4))
    order = list(nodes)
    rng.shuffle(order)
    for i in range(1, nn):
        add(rng.choice(['R', 'R', 'G', 'Z', 'LV', 'LI']), order[i], order[rng.randrange(i)])
    for _ in range(rng.randint(1, 4)):
        a, b = rng.sample(nodes, 2)
        add(rng.choice(['R', 'Y', 'I', 'LV', 'LI', 'V', 'load']), a, b)
    # extra nodes hanging on shorts / opens
    extra_nodes = []
    style = rng.choice(['chain', 'star', 'tree', 'parallel', 'mixed', 'none'])
    ns = rng.randint(0, 4) if style != 'none' else 0
    for s in range(ns):
        if style == 'chain':
            a = extra_nodes[-1] if extra_nodes else rng.choice(nodes)
            b = f's{s}'
            extra_nodes.append(b)
        elif style == 'star':
            a = nodes[0]
            b = f's{s}'
            extra_nodes.append(b)
        elif style == 'tree':
            a = rng.choice(nodes + extra_nodes)
            b = f's{s}'
            extra_nodes.append(b)
        elif style == 'parallel':
            a, b = nodes[0], nodes[1] if len(nodes) > 1 else nodes[0]
        else:
            a, b = rng.sample(nodes + extra_nodes, 2) if len(nodes + extra_nodes) >= 2 else (nodes[0], nodes[0])
        if a == b:
            continue
        if rng.random() < 0.5:
            a, b = b, a
        add('short', a, b)
    # something useful on the hanging nodes
    for e in extra_nodes:
        if rng.random() < 0.7:
            add(rng.choice(['R', 'I', 'LI', 'G']), e, rng.choice(nodes))
    for _ in range(rng.randint(0, 2)):
        if rng.random() < 0.3:
            a, b = rng.choice(nodes), f'o{k}'
        else:
            a, b = rng.sample(nodes, 2)
        add('open', a, b)
    rng.shuffle(brs)
    zero = rng.choice(nodes + extra_nodes[:1])
    return {'zero': zero, 'branches': brs}


def gen_keep(rng, case):
    keep = []
    for b in case['branches']:
        r = rng.random()
        if r < 0.25:
            keep.append({k: v for k, v in copy.deepcopy(b).items() if k not in ('n1', 'n2')})
        elif r < 0.32 and b['args']:
            c = {k: v for k, v in copy.deepcopy(b).items() if k not in ('n1', 'n2')}
            c['args'][0][0] += 1.0          # same name, other value: must NOT be exempt
            keep.append(c)
    rng.shuffle(keep)
    return keep


def gen_jobs(ctx):
    rng = random.Random(ctx.seed + 16)
    n = 350 if ctx.tier == 'quick' else 6000
    jobs = []
    ops = list(trfrun.OPS)
    for _ in range(n):
        case = gen_network(rng)
        for op in rng.sample(ops, 3) + ['remove_short_circuit_elements']:
            code = trfrun.OPS[op]
            if code == 1:
                nodes = sorted({b['n1'] for b in case['branches']} | {b['n2'] for b in case['branches']})
                arg = rng.choice(nodes + ['nowhere'])
            elif code == 2:
                arg = rng.choice([b['id'] for b in case['branches']] + ['nothing'])
            elif code == 3:
                arg = None
            else:
                arg = gen_keep(rng, case) if rng.random() < 0.5 else []
            jobs.append((case, op, arg))
    return jobs


def kept_oracle(case, op, arg, impl):
    """"Elements on the exemption list are left untouched": an exempt short circuit or source survives the contraction / source
    stripping with its identifier, kind and values — unless the contraction of OTHER elements has joined its two terminals (it is
    then a loop and its voltage is 0 anyway)"""
    bad = []
    if op not in ('remove_short_circuit_elements', 'remove_ideal_voltage_sources', 'passive_network') or not arg or 'net' not in impl:
        return bad
    raw = {b['id']: b for b in impl.get('input_raw', case)['branches']}
    out = {b['id']: b for b in impl['net']['branches']}
    keep = arg

    def kept(b):
        return any(k['id'] == b['id'] and k['ctor'] == b['ctor'] and k['args'] == b['args'] for k in keep)
    parent = {}

    def find(x):
        parent.setdefault(x, x)
        while parent[x] != x:
            parent[x] = parent[parent[x]]
            x = parent[x]
        return x
    for b in case['branches']:
        if b['id'] not in out and not kept(b) and b['ctor'] not in ('current_source', 'open_circuit'):
            parent[find(b['n1'])] = find(b['n2'])
    for b in case['branches']:
        if not kept(b) or b['ctor'] not in ('short_circuit', 'voltage_source', 'current_source'):
            continue
        if b['id'] in out:
            o, r = out[b['id']], raw[b['id']]
            if (o['ctor'], o['args']) != (r['ctor'], r['args']):
                bad.append((f'C16:{op}-touches-exempt-element', f'{op}: exempt element {b["id"]!r} was {r["ctor"]}{r["args"]} and is now '
                            f'{o["ctor"]}{o["args"]}'))
                return bad
        elif find(b['n1']) != find(b['n2']):
            bad.append((f'C16:{op}-touches-exempt-element', f'{op}: exempt element {b["id"]!r} ({b["ctor"]}) is gone although nothing that was '
                        f'contracted joins its terminals {b["n1"]!r} and {b["n2"]!r}'))
            return bad
    return bad


def identity_oracle(case, op, arg, impl):
    return kept_oracle(case, op, arg, impl) + identity_oracle_(case, op, arg, impl)


def identity_oracle_(case, op, arg, impl):
    """electrical identity for the two pure simplifications (and their exemption lists)"""
    bad = []
    if op not in ('remove_open_circuit_elements', 'remove_short_circuit_elements'):
        return bad
    # the original is solved from the element values the implementation itself holds (binary64 fields taken as
    # exact rationals), so that before/after can be compared exactly
    before = spec_solution(impl['input_raw']) if 'input_raw' in impl else spec_solution(case)
    if before is None:
        return bad
    if 'exc' in impl:
        bad.append((f'C16:{op}-raises-{impl["exc"]}-on-well-posed-network', f'{op} raised {impl["exc"]} on a well-posed network'))
        return bad
    out = impl['net']
    after = spec_solution(out)
    if after is None:
        bad.append((f'C16:{op}-destroys-well-posedness', f'{op}: original well-posed, simplified network is not'))
        return bad
    in_ids = {b['id']: b for b in case['branches']}
    for b in out['branches']:
        if b['id'] not in in_ids:
            bad.append((f'C16:{op}-invents-branch', f'branch {b["id"]!r} not in the original'))
            return bad
        if before['v'][b['id']] != after['v'][b['id']] or before['j'][b['id']] != after['j'][b['id']]:
            bad.append((f'C16:{op}-changes-solution', f'{op}: voltage/current of surviving branch {b["id"]!r} changed: '
                        f'v {complex(before["v"][b["id"]])} -> {complex(after["v"][b["id"]])}, '
                        f'j {complex(before["j"][b["id"]])} -> {complex(after["j"][b["id"]])}'))
            return bad
    for nlab, p in after['phi'].items():
        if nlab in before['phi'] and before['phi'][nlab] != p:
            bad.append((f'C16:{op}-changes-potential', f'{op}: potential of surviving node {nlab!r} changed'))
            return bad
    # names only what it says
    keep = arg or []
    def kept(b):
        return any(k['id'] == b['id'] and k['ctor'] == b['ctor'] and k['args'] == b['args'] for k in keep)
    out_ids = {b['id'] for b in out['branches']}
    for b in case['branches']:
        if op == 'remove_open_circuit_elements':
            expect_gone = b['ctor'] == 'open_circuit'
            if expect_gone != (b['id'] not in out_ids):
                bad.append(('C16:remove_open-wrong-branch-set', f'branch {b["id"]!r} ({b["ctor"]}) wrongly '
                            f'{"kept" if expect_gone else "dropped"}'))
                return bad
        else:
            is_sc = b['ctor'] == 'short_circuit'
            if is_sc and kept(b) and b['id'] not in out_ids:
                # an exempt short may still vanish when another contraction turns it into a loop; then its voltage is 0 anyway
                pass
            if is_sc and not kept(b) and b['id'] in out_ids:
                bad.append(('C16:remove_short-leaves-short', f'short circuit {b["id"]!r} survives'))
                return bad
            if not is_sc and b['id'] not in out_ids:
                # allowed only if the branch was shorted out (its exact voltage is 0 and it became a loop)
                if not before['v'][b['id']].iszero():
                    bad.append(('C16:remove_short-drops-live-branch', f'branch {b["id"]!r} with non-zero voltage dropped'))
                    return bad
    return bad


def examine(ctx, jobs):
    impls = [trfrun.impl_transform(c, op, arg) for c, op, arg in jobs]
    models = trfrun.model_transform(jobs)
    for (case, op, arg), impl, model in zip(jobs, impls, models):
        ctx.evaluations += 1
        ctx.count('op:' + op)
        ctx.count('impl:' + (impl.get('exc') or 'returned'))
        if arg and isinstance(arg, list):
            ctx.count('with-keep-list')
        nshort = sum(1 for b in case['branches'] if b['ctor'] == 'short_circuit')
        ctx.count(f'shorts:{nshort}')
        if impl.get('mutated_input'):
            ctx.violation('C16:input-mutated', f'{op} modified its input network', {'network': case, 'op': op, 'arg': arg})
        d = trfrun.compare_networks(impl, model)
        if d:
            ctx.disagreements.append((case, op))
            ctx.violation('correspondence:C16-' + op, f'model and implementation disagree on {op}: {d}',
                          {'network': case, 'op': op, 'arg': arg, 'disagreement': d}, kind='obligation')
        for key, what in identity_oracle(case, op, arg, impl):
            def pred(c, key=key):
                a2 = arg
                if isinstance(arg, list):
                    ids = {b['id'] for b in c['branches']}
                    a2 = [k for k in arg if k['id'] in ids]
                return any(k == key for k, _ in identity_oracle(c, op, a2, trfrun.impl_transform(c, op, a2)))
            small = netrun.shrink(case, pred)
            ids = {b['id'] for b in small['branches']}
            a2 = [k for k in arg if k['id'] in ids] if isinstance(arg, list) else arg
            ctx.violation(key, what, {'network': small, 'op': op, 'arg': a2})
        if 'net' in impl and spec_solution(case) is not None and \
                [b['id'] for b in impl['net']['branches']] != [b['id'] for b in case['branches']] and \
                any(b['ctor'] in ('voltage_source', 'current_source') for b in case['branches']):
            ctx.nontriv([netgen.canon(case), op, arg])
        ctx.sample({'network': case, 'op': op, 'arg': arg, 'impl': str(impl)[:300]}, cap=3)


def run(ctx):
    ctx.trusted = TRUSTED
    ctx.assumptions = ['ids unique (validated by Network)', 'finite element values']
    if standard_prologue(ctx):
        examine(ctx, gen_jobs(ctx))
    return RULE


def replay(ctx, obj):
    ctx.trusted = TRUSTED
    if standard_prologue(ctx):
        c = obj['case']
        examine(ctx, [(c['network'], c['op'], c.get('arg'))])
    return RULE
