"""C11 — derived dynamics are passive and stable."""
import numpy as np

import c10
import ssrun
from common import standard_prologue

RULE = ('cases = the non-degenerate RLC + ideal-source circuits of C10 (strictly positive R, C, L; names interleaving kinds, random '
        'listing order).  Checked on the implementation: with W = diag(C..., L...) in the model\'s own state order the symmetric '
        'matrix W A + A^T W has no positive eigenvalue; no eigenvalue of A has a positive real part; after a finite pulse on every '
        'source the stored energy sum C v^2/2 + sum L i^2/2 computed from TransientSolution (capacitor voltages, inductor currents) '
        'never increases from one sample to the next and all samples stay bounded; every second circuit is analysed again in the same process with other capacitances / inductances (same names and topology: a parameter sweep) and must satisfy the same conditions.  distinct = distinct circuit; non-trivial = '
        '>= 2 states or >= 1 state with a dissipative path')

TRUSTED = c10.TRUSTED + ['scipy.signal.lsim for the simulated-energy clause (not modelled)']


def check_case(case):
    bad = []
    try:
        m = ssrun.impl_model(case)
    except Exception as e:  # noqa: BLE001
        return [(f'C11:raises-{type(e).__name__}', str(e)[:150])]
    A = m['A']
    n = A.shape[0]
    if n == 0:
        return bad
    w = np.array([m['cvals'][i] for i in m['c_ids']] + [m['lvals'][i] for i in m['l_ids']])
    W = np.diag(w)
    S = W @ A + A.T @ W
    ev = np.linalg.eigvalsh((S + S.T) / 2)
    scale = max(1.0, np.max(np.abs(S)))
    if ev.max() > 1e-9 * scale:
        bad.append(('C11:lyapunov-not-negative-semidefinite', f'W A + A^T W has eigenvalue {ev.max()} (scale {scale}); W = diag{list(w)}'))
    lam = np.linalg.eigvals(A)
    if lam.real.max() > 1e-9 * max(1.0, np.max(np.abs(lam))):
        bad.append(('C11:unstable-natural-frequency', f'eigenvalues of A: {lam}'))
    if bad:
        return bad
    # simulated energy after a pulse
    try:
        from CircuitCalculator.Circuit.solution import TransientSolution
        rates = np.abs(lam[np.abs(lam) > 1e-12])
        fast = rates.max() if len(rates) else 1.0
        slow = rates.min() if len(rates) else 1.0
        h = 0.05 / fast
        T = min(12.0 / slow, 4000 * h)
        t = np.arange(0, T, h)
        t1 = t[len(t) // 8]
        inp = {s: (lambda tt, t1=t1: np.where(tt <= t1, 1.0, 0.0) * np.minimum(tt / (t1 / 4 + 1e-300), 1.0)) for s in m['sources']}
        # make the pulse end on the grid with a one-sample ramp down
        sol = TransientSolution(m['circuit'], tin=t, input=inp)
        E = np.zeros(len(t))
        for cid in m['c_ids']:
            E += 0.5 * m['cvals'][cid] * np.asarray(sol.get_voltage(cid)[1]) ** 2
        for lid in m['l_ids']:
            E += 0.5 * m['lvals'][lid] * np.asarray(sol.get_current(lid)[1]) ** 2
        k0 = int(np.searchsorted(t, t1)) + 2
        tail = E[k0:]
        if len(tail) > 2:
            if not np.all(np.isfinite(tail)):
                bad.append(('C11:simulated-response-unbounded', 'non-finite samples after the pulse'))
            else:
                inc = np.diff(tail)
                if inc.max() > 1e-6 * max(tail.max(), 1e-300):
                    bad.append(('C11:stored-energy-increases', f'stored energy grows by {inc.max()} (max {tail.max()}) after the sources returned to zero'))
    except Exception as e:  # noqa: BLE001
        bad.append((f'C11:transient-raises-{type(e).__name__}', str(e)[:150]))
    return bad


def check_case_fresh(case):
    """check_case in a fresh interpreter (no state left over from earlier analyses)"""
    import json
    import os
    import subprocess
    import sys
    code = ('import json,sys; import c11; case=json.loads(sys.stdin.read()); print(json.dumps(c11.check_case(case)))')
    try:
        out = subprocess.run([sys.executable, '-c', code], input=json.dumps(case), capture_output=True, text=True, timeout=300,
                             env=dict(os.environ))
        return [tuple(x) for x in json.loads(out.stdout.strip().splitlines()[-1])]
    except Exception:  # noqa: BLE001
        return []


def examine(ctx, cases):
    for origin, case in cases:
        ctx.evaluations += 1
        if not ssrun.nondegenerate(case):
            ctx.count('degenerate(excluded)')
            continue
        nst = sum(1 for c in case['components'] if c['kind'] in ('capacitor', 'inductance'))
        ctx.count(f'states:{nst}')
        for key, what in check_case(case):
            small = ssrun.shrink(case, lambda cc, key=key: ssrun.nondegenerate(cc) and any(k == key for k, _ in check_case(cc)))
            ctx.violation(key, what, {'circuit': small})
        # parameter sweep in one session: the same topology and names with other capacitances / inductances, analysed right after
        if nst >= 1 and ctx.evaluations % 2 == 0:
            import copy
            import random
            r = random.Random(ctx.evaluations)
            swept = copy.deepcopy(case)
            for c in swept['components']:
                if c['kind'] == 'capacitor':
                    c['params']['C'] = r.choice([v for v in ssrun.C_VALUES if v != c['params']['C']])
                if c['kind'] == 'inductance':
                    c['params']['L'] = r.choice([v for v in ssrun.L_VALUES if v != c['params']['L']])
            ctx.count('swept-after-first-analysis')
            if ssrun.nondegenerate(swept):
                for key, what in check_case(swept):
                    if any(k == key for k, _ in check_case_fresh(swept)):
                        ctx.violation(key, what, {'circuit': swept})        # fails on its own as well
                    else:
                        ctx.violation(key + ':after-analysing-same-topology-with-other-values', what + ' — only when the same circuit with other '
                                      'C/L values was analysed before in the same process', {'circuit': swept, 'analysed_before': case})
        if nst >= 1:
            ctx.nontriv([(c['kind'], c['id'], c['nodes'], sorted(c['params'].items())) for c in case['components']])
        ctx.sample({'circuit': case}, cap=3)


def run(ctx):
    ctx.trusted = TRUSTED
    ctx.partial = ['the simulated-energy clause depends on scipy.signal.lsim, which is exercised, not modelled']
    if standard_prologue(ctx):
        examine(ctx, c10.gen(ctx, 120, 3000, 11, min_states=1))
    return RULE


def replay(ctx, obj):
    ctx.trusted = TRUSTED
    if standard_prologue(ctx):
        c = obj['case']
        if 'analysed_before' in c:
            check_case(c['analysed_before'])
            for key, what in check_case(c['circuit']):
                ctx.violation(key + ':after-analysing-same-topology-with-other-values', what, c)
            ctx.evaluations += 1
        else:
            examine(ctx, [('replay', c['circuit'])])
    return RULE
