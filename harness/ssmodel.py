"""Correspondence of the Coq state-space model (Model/StateSpace.v, runner function 10) with the implementation:
`sources` exactly, A, B, C, D entrywise (C, D = the stacked output rows of Circuit.state_space_model for all node
potentials, all element voltages, all element currents)."""
from fractions import Fraction

import numpy as np

import netgen
import ssrun
from common import Toks, run_model, t_label, t_list, t_q

FN = 10


def tok_vals(d):
    return t_list(list(d.items()), lambda kv: t_label(kv[0]) + t_q(kv[1]))


def tok_case(net_case, cvals, lvals, pots, vids, cids):
    return ([FN] + netgen.tok_network(net_case) + tok_vals(cvals) + tok_vals(lvals)
            + t_list(pots, t_label) + t_list(vids, t_label) + t_list(cids, t_label))


def decode(toks):
    t = Toks(toks)
    tag = t.z()
    if tag < 0:
        return {'exc': f'codec{tag}'}
    if tag == 1:
        from common import ERR_NAMES
        return {'exc': ERR_NAMES.get(t.z(), 'Other')}
    out = {'sources': t.lst(t.label)}
    for k in 'ABCD':
        out[k] = t.lst(lambda: t.lst(t.q))
    if not t.done():
        return {'exc': 'codec-trailing'}
    return out


def impl_side(case):
    """implementation model + the w = 0 network handed to the Coq model"""
    m = ssrun.impl_model(case)
    from CircuitCalculator.Circuit.circuit import transform_circuit
    net = transform_circuit(m['circuit'], w=0)
    return m, netgen.network_to_case(net)


def mat_diff(name, got, want, floor, tol=1e-8):
    """got: list of rows of Fractions; want: numpy 2-D array.  Entrywise |got - want| <= tol * max(largest entry of
    the matrix, floor); `floor` is the natural magnitude of the factors the matrix is a product of (so that an exactly
    zero matrix is compared against the rounding noise of those factors, not against itself).  None or a description."""
    want = np.atleast_2d(np.array(want, dtype=float))
    rows = len(got)
    if want.size == 0 and (rows == 0 or all(len(r) == 0 for r in got)):
        return None
    if rows != want.shape[0] or any(len(r) != want.shape[1] for r in got):
        return f'{name}: shape {rows}x{len(got[0]) if got else 0} (model) vs {want.shape} (implementation)'
    g = np.array([[float(x) for x in r] for r in got], dtype=float).reshape(want.shape)
    scale = max(float(np.max(np.abs(g))), floor)
    err = np.abs(g - want)
    if not np.all(np.isfinite(want)) or np.max(err) > tol * scale:
        j = np.unravel_index(int(np.argmax(np.where(np.isfinite(err), err, np.inf))), err.shape)
        return f'{name}[{j[0]}][{j[1]}]: model {g[j]} vs implementation {want[j]} (scale {scale})'
    return None


def correspond(ctx, cases):
    jobs, metas = [], []
    for case in cases:
        try:
            m, net_case = impl_side(case)
        except Exception as e:  # noqa: BLE001 — reported by the C10 check itself (raises-on-non-degenerate)
            ctx.count('correspondence:impl-raised')
            metas.append((case, None, f'{type(e).__name__}'))
            continue
        jobs.append(tok_case(net_case, m['cvals'], m['lvals'], m['nodes'], m['ids'], m['ids']))
        metas.append((case, m, len(jobs) - 1))
    outs = run_model(jobs)
    for case, m, k in metas:
        if m is None:
            continue
        ctx.count('correspondence:compared')
        r = decode(outs[k])
        if 'exc' in r:
            ctx.violation('correspondence:C10-matrices', f'model answers {r["exc"]}, implementation returns matrices',
                          {'circuit': case, 'model': r['exc']}, kind='obligation')
            continue
        if r['sources'] != m['sources']:
            ctx.violation('correspondence:C10-matrices', f'sources: model {r["sources"]} vs implementation {m["sources"]}',
                          {'circuit': case}, kind='obligation')
            continue
        lam = [abs(v) for v in list(m['cvals'].values()) + list(m['lvals'].values())]
        inv = max([1.0 / v for v in lam if v] + [1.0])
        floors = {'A': inv, 'B': inv, 'C': 1.0, 'D': 1.0}
        for name in 'ABCD':
            d = mat_diff(name, r[name], m[name], floors[name])
            if d:
                ctx.violation('correspondence:C10-matrices', d, {'circuit': case, 'matrix': name}, kind='obligation')
                break
