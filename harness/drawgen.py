"""Drawing programs over a grid (C13-C15): JSON-able program -> live schemdraw drawing; intended netlist computed from the
program alone (grid points joined by wires); geometric transformations of programs."""
import copy
import math
import random

TWO_TERM = ['Resistor', 'Conductance', 'Impedance', 'Capacitor', 'Inductance', 'Lamp', 'Switch', 'LabeledLine',
            'VoltageSource', 'CurrentSource', 'ACVoltageSource', 'ACCurrentSource', 'ComplexVoltageSource', 'ComplexCurrentSource',
            'RectVoltageSource', 'RectCurrentSource', 'TriangleVoltageSource', 'TriangleCurrentSource',
            'SawtoothVoltageSource', 'SawtoothCurrentSource']
SOURCES = [k for k in TWO_TERM if k.endswith('Source')]
PERSISTABLE = ['Resistor', 'Conductance', 'Impedance', 'Capacitor', 'Inductance', 'VoltageSource', 'CurrentSource', 'ACVoltageSource',
               'ACCurrentSource', 'ComplexVoltageSource', 'ComplexCurrentSource', 'RectVoltageSource', 'RectCurrentSource']

VALS = [1.0, 2.0, 5.0, 10.0, 47.0, 100.0, 0.5, 0.25]


def sine_reference(rng, kind, s):
    """a sinusoidal source given as A·sin(wt + phi): the circuit's (cosine-referenced) phase is phi - pi/2.  Only with the phase in radians:
    with deg=True the library subtracts pi/2 from the value in degrees (observed, not judged — DESIGN.md)"""
    if kind in ('ACVoltageSource', 'ACCurrentSource') and rng.random() < 0.3:
        s['kw']['sin'] = True
        s['kw']['deg'] = False
        s['kw']['phi'] = rng.choice([0.0, 0.5, 1.0, -2.0])


def mk_symbol(rng, kind, name, p, q):
    s = {'cls': kind, 'name': name, 'p': list(p), 'q': list(q), 'reverse': False, 'kw': {}}
    v = rng.choice(VALS)
    if kind == 'Resistor':
        s['kw'] = {'R': v}
    elif kind == 'Conductance':
        s['kw'] = {'G': v}
    elif kind == 'Impedance':
        s['kw'] = {'Z': [v, rng.choice([-1, 1]) * rng.choice(VALS)]}
    elif kind == 'Capacitor':
        s['kw'] = {'C': v * 1e-3}
    elif kind == 'Inductance':
        s['kw'] = {'L': v * 1e-2}
    elif kind == 'Lamp':
        s['kw'] = {'V_ref': v, 'P_ref': rng.choice(VALS)}
    elif kind == 'Switch':
        s['kw'] = {'state': rng.choice(['OPEN', 'CLOSED'])}
        # operated after it was constructed: the intended state is the state it was left in
        if rng.random() < 0.6:
            s['after'] = [rng.choice(['open', 'close', 'toggle']) for _ in range(rng.randint(1, 3))]
    elif kind == 'LabeledLine':
        s['kw'] = {}
    elif kind in ('VoltageSource',):
        s['kw'] = {'V': v * rng.choice([1, -1])}
        s['reverse'] = rng.random() < 0.4
    elif kind in ('CurrentSource',):
        s['kw'] = {'I': v * rng.choice([1, -1])}
        s['reverse'] = rng.random() < 0.4
    elif kind in ('ComplexVoltageSource',):
        s['kw'] = {'V': [v, rng.choice(VALS)]}
        s['reverse'] = rng.random() < 0.4
    elif kind in ('ComplexCurrentSource',):
        s['kw'] = {'I': [v, rng.choice(VALS)]}
        s['reverse'] = rng.random() < 0.4
    elif kind.endswith('VoltageSource'):
        s['kw'] = {'V': v, 'w': rng.choice([1.0, 50.0, 314.0]), 'phi': rng.choice([0.0, 0.5, 90.0, 30.0]), 'deg': rng.random() < 0.5}
        s['reverse'] = rng.random() < 0.4
        sine_reference(rng, kind, s)
    elif kind.endswith('CurrentSource'):
        s['kw'] = {'I': v, 'w': rng.choice([1.0, 50.0, 314.0]), 'phi': rng.choice([0.0, 0.5, 90.0, 30.0]), 'deg': rng.random() < 0.5}
        s['reverse'] = rng.random() < 0.4
        sine_reference(rng, kind, s)
    return s


def random_program(rng, kinds=None, n_sources=None, max_cells=3, with_ground=None, n_labels=None):
    """a connected arrangement: symbols and wires on the edges of a small grid"""
    kinds = kinds or TWO_TERM
    W, H = rng.randint(1, max_cells), rng.randint(1, max_cells)
    pts = [(x, y) for x in range(W + 1) for y in range(H + 1)]
    edges = [((x, y), (x + 1, y)) for x in range(W) for y in range(H + 1)] + [((x, y), (x, y + 1)) for x in range(W + 1) for y in range(H)]
    rng.shuffle(edges)
    # a spanning tree of the grid keeps everything connected; extra edges at random
    comp = {p: p for p in pts}

    def find(p):
        while comp[p] != p:
            p = comp[p]
        return p
    chosen = []
    for a, b in edges:
        if find(a) != find(b):
            comp[find(a)] = find(b)
            chosen.append((a, b))
        elif rng.random() < 0.5:
            chosen.append((a, b))
    chosen = [(a, b) if rng.random() < 0.5 else (b, a) for a, b in chosen]
    rng.shuffle(chosen)
    nsrc = n_sources if n_sources is not None else rng.randint(1, 2)
    symbols = []
    used = 0
    passive = [k for k in kinds if not k.endswith('Source')] or ['Resistor']
    srcs = [k for k in kinds if k.endswith('Source')] or ['VoltageSource']
    for k, (a, b) in enumerate(chosen):
        r = rng.random()
        if used < nsrc:
            kind = rng.choice(srcs)
            used += 1
        elif r < 0.45:
            kind = 'Line'
        else:
            kind = rng.choice(passive)
        if kind == 'Line':
            symbols.append({'cls': 'Line', 'name': '', 'p': list(a), 'q': list(b), 'reverse': False, 'kw': {}})
        else:
            symbols.append(mk_symbol(rng, kind, f'{kind[:2]}{k}', a, b))
    touched = sorted({tuple(s['p']) for s in symbols} | {tuple(s['q']) for s in symbols})
    g = with_ground if with_ground is not None else rng.random() < 0.8
    if g:
        symbols.append({'cls': 'Ground', 'name': '0', 'p': list(rng.choice(touched)), 'q': None, 'reverse': False, 'kw': {}})
    nl = n_labels if n_labels is not None else rng.randint(0, 2)
    labels = rng.sample(['A', 'B', 'n1', '7', '2', '3', 'x', '4', '5', '6'], nl)
    for lab in labels:
        symbols.append({'cls': 'LabelNode', 'name': lab, 'p': list(rng.choice(touched)), 'q': None, 'reverse': False, 'kw': {}})
    return {'unit': rng.choice([2, 3, 7]), 'symbols': symbols}


def switch_state(s):
    """the state a switch symbol is left in: constructed state, then open / close / toggle in order"""
    st = s['kw']['state']
    for op in s.get('after', []):
        st = {'open': 'OPEN', 'close': 'CLOSED', 'toggle': 'CLOSED' if st == 'OPEN' else 'OPEN'}[op]
    return st


# ------------------------------------------------------------------ live drawing
def build(program, point_map=None):
    """-> (Schematic, list of live elements in program order)"""
    import CircuitCalculator.SimpleCircuit.Elements as elm
    u = program['unit']
    pm = point_map or (lambda p: (p[0] * u, p[1] * u))
    d = elm.Schematic(unit=u)
    live = []
    for s in program['symbols']:
        cls = getattr(elm, s['cls'])
        kw = dict(s['kw'])
        for k in ('Z', 'V', 'I'):
            if isinstance(kw.get(k), list):
                kw[k] = complex(*kw[k])
        if s['cls'] == 'Switch':
            kw['state'] = elm.SwitchState.OPEN if kw['state'] == 'OPEN' else elm.SwitchState.CLOSED
        if s['cls'] == 'Line':
            e = cls().endpoints(pm(s['p']), pm(s['q']))
        elif s['cls'] in ('Ground', 'LabelNode', 'Node'):
            e = cls(name=s['name']).at(pm(s['p']))
        else:
            if s['cls'].endswith('Source'):
                kw['reverse'] = s['reverse']
            e = cls(name=s['name'], **kw).endpoints(pm(s['p']), pm(s['q']))
            for op in s.get('after', []):
                getattr(e, op)()
        d.add(e)
        live.append(e)
    return d, live


# ------------------------------------------------------------------ intended netlist (from the program alone)
def classes(program):
    """union-find over grid points joined by Line symbols -> {point: representative}"""
    pts = set()
    for s in program['symbols']:
        pts.add(tuple(s['p']))
        if s['q'] is not None:
            pts.add(tuple(s['q']))
    rep = {p: p for p in pts}

    def find(p):
        while rep[p] != p:
            rep[p] = rep[rep[p]]
            p = rep[p]
        return p
    for s in program['symbols']:
        if s['cls'] == 'Line':
            a, b = find(tuple(s['p'])), find(tuple(s['q']))
            if a != b:
                rep[a] = b
    return {p: find(p) for p in pts}


def intended(program):
    """components the property prescribes: (kind, id, (class1, class2), params) with node classes as grid representatives;
    plus labels {class: name} and the ground class (None = unspecified)"""
    cl = classes(program)
    comps, labels, ground = [], {}, []
    for s in program['symbols']:
        c = s['cls']
        if c == 'Line':
            continue
        if c == 'Ground':
            ground.append(cl[tuple(s['p'])])
            labels.setdefault(cl[tuple(s['p'])], []).append(s['name'])
            comps.append(('ground', s['name'], (cl[tuple(s['p'])],), {}))
            continue
        if c in ('LabelNode', 'Node'):
            labels.setdefault(cl[tuple(s['p'])], []).append(s['name'])
            continue
        a, b = cl[tuple(s['p'])], cl[tuple(s['q'])]
        if s['reverse']:
            a, b = b, a
        kw = s['kw']

        def phase():
            if kw.get('sin') and c in ('ACVoltageSource', 'ACCurrentSource'):
                return kw['phi'] - math.pi / 2
            return kw['phi'] * math.pi / 180 if kw.get('deg') else kw['phi']
        if c == 'Resistor':
            comps.append(('resistor', s['name'], (a, b), {'R': kw['R']}))
        elif c == 'Conductance':
            comps.append(('conductance', s['name'], (a, b), {'G': kw['G']}))
        elif c == 'Impedance':
            comps.append(('impedance', s['name'], (a, b), {'R': kw['Z'][0], 'X': kw['Z'][1]}))
        elif c == 'Capacitor':
            comps.append(('capacitor', s['name'], (a, b), {'C': kw['C']}))
        elif c == 'Inductance':
            comps.append(('inductance', s['name'], (a, b), {'L': kw['L']}))
        elif c == 'Lamp':
            comps.append(('lamp', s['name'], (a, b), {'P': kw['P_ref'], 'V_ref': kw['V_ref']}))
        elif c == 'Switch':
            comps.append(('resistor', s['name'], (a, b), {'R': math.inf if switch_state(s) == 'OPEN' else 1e-12}))
        elif c == 'LabeledLine':
            comps.append(('short_circuit', s['name'], (a, b), {}))
        elif c == 'VoltageSource':
            comps.append(('dc_voltage_source', s['name'], (a, b), {'V': kw['V'], 'R': 0, 'w': 0, 'phi': 0}))
        elif c == 'CurrentSource':
            comps.append(('dc_current_source', s['name'], (a, b), {'I': kw['I'], 'G': 0, 'w': 0, 'phi': 0}))
        elif c == 'ComplexVoltageSource':
            comps.append(('complex_voltage_source', s['name'], (a, b), {'V_real': kw['V'][0], 'V_imag': kw['V'][1], 'R': 0.0, 'X': 0.0}))
        elif c == 'ComplexCurrentSource':
            comps.append(('complex_current_source', s['name'], (a, b), {'I_real': kw['I'][0], 'I_imag': kw['I'][1], 'G': 0.0, 'B': 0.0}))
        elif c == 'ACVoltageSource':
            comps.append(('ac_voltage_source', s['name'], (a, b), {'V': kw['V'], 'R': 0, 'w': kw['w'], 'phi': phase()}))
        elif c == 'ACCurrentSource':
            comps.append(('ac_current_source', s['name'], (a, b), {'I': kw['I'], 'G': 0, 'w': kw['w'], 'phi': phase()}))
        elif c in ('RectVoltageSource', 'TriangleVoltageSource', 'SawtoothVoltageSource'):
            wt = {'Rect': 'rect', 'Tria': 'tri', 'Sawt': 'saw'}[c[:4]]
            comps.append(('periodic_voltage_source', s['name'], (a, b), {'wavetype': wt, 'V': kw['V'], 'w': kw['w'], 'phi': phase(), 'R': 0}))
        elif c in ('RectCurrentSource', 'TriangleCurrentSource', 'SawtoothCurrentSource'):
            wt = {'Rect': 'rect', 'Tria': 'tri', 'Sawt': 'saw'}[c[:4]]
            comps.append(('periodic_current_source', s['name'], (a, b), {'wavetype': wt, 'I': kw['I'], 'w': kw['w'], 'phi': phase(), 'G': 0}))
        else:
            raise ValueError(c)
    return {'components': comps, 'labels': labels, 'ground': ground}


# ------------------------------------------------------------------ transformations of programs
def rotate(program, k):
    """rotate the whole drawing by k*90 degrees about the origin"""
    def rot(p):
        x, y = p
        for _ in range(k % 4):
            x, y = -y, x
        return [x, y]
    out = copy.deepcopy(program)
    for s in out['symbols']:
        s['p'] = rot(s['p'])
        if s['q'] is not None:
            s['q'] = rot(s['q'])
    return out


def translate(program, dx, dy):
    out = copy.deepcopy(program)
    for s in out['symbols']:
        s['p'] = [s['p'][0] + dx, s['p'][1] + dy]
        if s['q'] is not None:
            s['q'] = [s['q'][0] + dx, s['q'][1] + dy]
    return out


def rescale(program, unit):
    out = copy.deepcopy(program)
    out['unit'] = unit
    return out


def subdivide(program, rng):
    """split some wires into two segments at their midpoint (grid doubled to stay integral)"""
    out = copy.deepcopy(program)
    for s in out['symbols']:
        s['p'] = [2 * s['p'][0], 2 * s['p'][1]]
        if s['q'] is not None:
            s['q'] = [2 * s['q'][0], 2 * s['q'][1]]
    new = []
    for s in out['symbols']:
        if s['cls'] == 'Line' and rng.random() < 0.7:
            m = [(s['p'][0] + s['q'][0]) // 2, (s['p'][1] + s['q'][1]) // 2]
            a, b = copy.deepcopy(s), copy.deepcopy(s)
            a['q'] = m
            b['p'] = m
            new += [a, b] if rng.random() < 0.5 else [b, a]
        else:
            new.append(s)
    out['symbols'] = new
    out['unit'] = out['unit'] / 2 if out['unit'] >= 4 else out['unit']
    return out


def reorder(program, rng):
    out = copy.deepcopy(program)
    rng.shuffle(out['symbols'])
    return out
