"""C20 — analyses are pure, repeatable functions of the circuit description."""
import copy
import json
import os
import random
import subprocess
import sys

import numpy as np

RULE = ('cases = histories: random call sequences (40-80 calls) over a pool of shared objects (3 networks, 2 exemption lists, 2 '
        'circuits, network description dictionaries, nested documents with complex values, polar-notation dictionaries, c/l value '
        'dictionaries, frequency lists) drawn from the public operations of C01-C12, C16, C17: bias-point solver and queries, port '
        'voltage/impedance, the nine network transformers with shared exemption lists, load_network, to_complex, serialize / '
        'deserialize, transform / transform_circuit / frequency_components, DC / complex / time-domain / frequency-domain / transient '
        'solutions, state-space models with shared value dictionaries; and of the schematic layer: create_schematic / simulate on shared declarative descriptions (elements + solution section with reverse flags), save/load of the resulting schematic, circuit_translator and the annotation texts.  After every call: deep fingerprint of every pool object and '
        'of the __defaults__ of every library function must equal the initial one; every result must equal (bit for bit, float.hex) '
        'the result of the same call on a freshly built pool in a fresh interpreter process.  distinct = distinct (history seed); '
        'non-trivial = history with >= 10 distinct operations including a transformer, a loader and an analysis')

TRUSTED = [
    'Coq 8.16.1 kernel (history theorem over the heap-lite model)',
    'fingerprints: structural, floats by float.hex, numpy arrays by shape+bytes; object identity of shared sub-objects is not compared',
    'single-threaded BLAS (OMP/OPENBLAS/MKL_NUM_THREADS=1) so that repeated evaluation is bit-reproducible',
]


# ------------------------------------------------------------------ fingerprint
def fp(x, depth=0):
    from dataclasses import is_dataclass, fields
    if depth > 12:
        return '<deep>'
    if x is None or isinstance(x, (bool, str, int)):
        return repr(x)
    if isinstance(x, float):
        return x.hex()
    if isinstance(x, complex):
        return f'c({x.real.hex()},{x.imag.hex()})'
    if isinstance(x, np.generic):
        return fp(x.item(), depth)
    if isinstance(x, np.ndarray):
        if x.dtype == object:
            return 'objarr[' + ','.join(fp(v, depth + 1) for v in x.ravel()) + ']'
        return f'arr{x.shape}{x.dtype}:' + np.ascontiguousarray(x).tobytes().hex()
    if isinstance(x, dict):
        return '{' + ','.join(f'{fp(k, depth + 1)}:{fp(v, depth + 1)}' for k, v in x.items()) + '}'
    if isinstance(x, (list, tuple)):
        return ('[' if isinstance(x, list) else '(') + ','.join(fp(v, depth + 1) for v in x) + ']'
    if isinstance(x, (set, frozenset)):
        return 'set{' + ','.join(sorted(fp(v, depth + 1) for v in x)) + '}'
    if is_dataclass(x) and not isinstance(x, type):
        return type(x).__name__ + '(' + ','.join(f'{f.name}={fp(getattr(x, f.name), depth + 1)}' for f in fields(x)) + ')'
    if callable(x):
        return '<callable>'
    if hasattr(x, '__dict__'):
        return type(x).__name__ + fp({k: v for k, v in vars(x).items() if not k.startswith('__')}, depth + 1)
    return repr(x)


# ------------------------------------------------------------------ pool
def build_pool(seed):
    sys.path.insert(0, os.path.dirname(os.path.abspath(__file__)))
    import netgen
    import circgen
    import ssrun
    from exact import spec_solution
    rng = random.Random(seed)
    pool = {}
    nets = []
    while len(nets) < 3:
        c = netgen.random_network(rng, max_nodes=5, max_branches=8, kinds=['R', 'G', 'Z', 'Y', 'V', 'I', 'LV', 'LI', 'short', 'open', 'R', 'R'])
        if spec_solution(c) is not None and len(c['branches']) >= 3:
            nets.append(c)
    for k, c in enumerate(nets):
        pool[f'net{k}'] = netgen.impl_network(c)
        pool[f'netcase{k}'] = c
    # a source-free network (operations that special-case "nothing to deactivate" must not hand out or edit their input)
    passive = netgen.random_network(rng, max_nodes=4, max_branches=6, kinds=['R', 'G', 'Z', 'Y', 'R'])
    pool['net3'] = netgen.impl_network(passive)
    pool['netcase3'] = passive
    els = [b.element for b in pool['net0'].branches] + [b.element for b in pool['net1'].branches]
    pool['keep0'] = rng.sample(els, min(2, len(els)))
    pool['keep1'] = []
    circs = []
    while len(circs) < 2:
        c = ssrun.gen_circuit(rng)
        if ssrun.nondegenerate(c) and any(x['kind'] in ('capacitor', 'inductance') for x in c['components']):
            circs.append(c)
    for k, c in enumerate(circs):
        pool[f'circ{k}'] = circgen.impl_circuit(c)
        pool[f'circcase{k}'] = c
        pool[f'cvals{k}'] = {x['id']: x['params']['C'] for x in c['components'] if x['kind'] == 'capacitor'}
        pool[f'lvals{k}'] = {x['id']: x['params']['L'] for x in c['components'] if x['kind'] == 'inductance'}
    mixed = circgen.random_circuit(rng, max_nodes=4, max_extra=2)
    pool['circ2'] = circgen.impl_circuit(mixed)
    pool['desc0'] = [{'type': 'resistor', 'id': 'R1', 'N1': '0', 'N2': '1', 'R': 10.0},
                     {'type': 'linear_voltage_source', 'id': 'U', 'N1': '1', 'N2': '0', 'V': {'abs': 2.0, 'phase': 0.5}, 'Z': {'real': 1.0, 'imag': 2.0}},
                     {'type': 'admittance', 'id': 'Y', 'N1': '1', 'N2': '0', 'Y': {'real': 0.5, 'imag': -0.25}},
                     {'type': 'current_source', 'id': 'I', 'N1': '0', 'N2': '1', 'I': {'real': 0.0, 'imag': 1.0}}]
    pool['doc0'] = {'a': 1 + 2j, 'n': {'b': [1, 2.5, {'z': -3j}], 'c': {'d': 4 - 1j}}, 'l': [[{'q': 1j}], 'x']}
    pool['flat0'] = {'a': 1 + 2j, 'b': 3.5, 'c': -4j, 'name': 'x'}          # flat dictionary with complex leaves
    pool['polar0'] = {'abs': 2.0, 'phase': 30.0}
    pool['text0'] = '{"a": {"real": 1.0, "imag": 2.0}, "l": [1, {"z": {"abs": 2.0, "phase": 0.5}}, [{"w": {"real": 0.0, "imag": -1.0}}]]}'
    # declarative schematic descriptions (SimpleSimulation): elements with directions / place_after / reverse flags and a solution section
    pool['sdesc0'] = {'unit': 3, 'elements': [
        {'type': 'voltage_source', 'name': 'V', 'V': 12.0, 'direction': 'up'},
        {'type': 'resistor', 'name': 'R1', 'R': 10.0, 'direction': 'right'},
        {'type': 'resistor', 'name': 'R2', 'R': 20.0, 'direction': 'down'},
        {'type': 'line', 'direction': 'left'}, {'type': 'ground'}],
        'solution': {'type': 'dc', 'precision': 3, 'voltages': [{'name': 'R1'}, {'name': 'R2', 'reverse': True}],
                     'currents': [{'name': 'R1', 'reverse': True}, {'name': 'V'}], 'powers': [{'name': 'R2'}]}}
    pool['sdesc1'] = {'unit': 3, 'elements': [
        {'type': 'current_source', 'name': 'I', 'I': 0.5, 'direction': 'up', 'reverse': True},
        {'type': 'resistor', 'name': 'Ra', 'R': 47.0, 'direction': 'right'},
        {'type': 'conductance', 'name': 'G', 'G': 0.1, 'direction': 'down'},
        {'type': 'line', 'direction': 'left'},
        {'type': 'resistor', 'name': 'Rb', 'R': 5.0, 'direction': 'down', 'place_after': 'Ra'},
        {'type': 'ground'}],
        'solution': {'type': 'real', 'precision': 4, 'voltages': [{'name': 'Ra', 'reverse': True}, {'name': 'G'}],
                     'currents': [{'name': 'Ra'}], 'powers': [{'name': 'G', 'reverse': True}]}}
    # periodic functions that differ in one constructor argument only (period / amplitude / phase / offset)
    pool['pf0'] = ['rect', 2.0, 1.5, 0.5, 0.0]
    pool['pf1'] = ['rect', 2.0, 1.5, 0.5, 0.75]         # other offset
    pool['pf2'] = ['rect', 5.0, 1.5, 0.5, 0.0]          # other period
    pool['pf3'] = ['tri', 2.0, -1.5, 0.5, 0.25]
    pool['pf4'] = ['saw', 2.0, 1.5, -0.5, 0.25]
    pool['desc1'] = [{'type': 'resistor', 'id': 'R1', 'N1': '0', 'N2': '1', 'R': 22.0},
                     {'type': 'voltage_source', 'id': 'U', 'N1': '1', 'N2': '0', 'V': {'real': 3.0, 'imag': 0.0}},
                     {'type': 'conductor', 'id': 'G', 'N1': '1', 'N2': '0', 'G': 0.25}]
    # constructor arguments that stay with the caller: component lists (ground symbol first / in the middle) and a branch list
    for k, c in enumerate(circs):
        comps = [circgen.impl_component(x) for x in c['components']]
        g = [x for x in comps if x.type == 'ground'] or [__import__('CircuitCalculator.Circuit.components', fromlist=['ground']).ground(nodes=(comps[0].nodes[0],))]
        rest = [x for x in comps if x.type != 'ground']
        pool[f'complist{k}'] = (g + rest) if k == 0 else (rest[:1] + g + rest[1:])
    pool['branchlist0'] = list(pool['net0'].branches)
    # a valid description whose solution section also names an element that does not exist (the library prints a note and goes on)
    pool['sdesc2'] = {'unit': 3, 'elements': pool['sdesc0']['elements'],
                      'solution': {'type': 'dc', 'precision': 3, 'voltages': [{'name': 'R1'}, {'name': 'nope'}, {'name': 'R2', 'reverse': True}],
                                   'currents': [{'name': 'nope'}, {'name': 'R1'}], 'powers': [{'name': 'R2'}, {'name': 'nope'}]}}
    pool['sdesc2'] = copy.deepcopy(pool['sdesc2'])
    pool['wlist0'] = [50.0, 0.0, 1.0]            # deliberately not ascending: a callee that sorts its argument changes the caller's list
    pool['tgrid'] = np.linspace(0.0, 0.5, 40)
    return pool


def library_defaults():
    import importlib
    import inspect
    out = {}
    for m in ('CircuitCalculator.Network.transformers', 'CircuitCalculator.Network.loaders', 'CircuitCalculator.Network.elements',
              'CircuitCalculator.Network.NodalAnalysis.state_space_model', 'CircuitCalculator.Network.NodalAnalysis.node_analysis',
              'CircuitCalculator.Network.NodalAnalysis.bias_point_analysis', 'CircuitCalculator.Network.NodalAnalysis.label_mapping',
              'CircuitCalculator.Network.NodalAnalysis.solution',
              'CircuitCalculator.Circuit.circuit', 'CircuitCalculator.Circuit.state_space_model', 'CircuitCalculator.Circuit.impedance',
              'CircuitCalculator.Circuit.solution', 'CircuitCalculator.Circuit.transformers', 'CircuitCalculator.Circuit.components',
              'CircuitCalculator.dump_load', 'CircuitCalculator.Circuit.dump_load',
              'CircuitCalculator.SignalProcessing.periodic_functions', 'CircuitCalculator.SignalProcessing.state_space_model',
              'CircuitCalculator.Utils', 'CircuitCalculator.Network.network'):
        mod = importlib.import_module(m)
        for name, f in inspect.getmembers(mod, inspect.isfunction):
            if f.__module__ == m and (f.__defaults__ or f.__kwdefaults__):
                out[f'{m}.{name}'] = fp([f.__defaults__, f.__kwdefaults__])
        # module-level mutable state (caches)
        for name, v in vars(mod).items():
            if not name.startswith('__') and isinstance(v, (dict, list, set)) and not name.isupper():
                out[f'{m}:{name}'] = fp(v) if len(repr(v)) < 20000 else f'<{len(v)} entries>'
    return out


def sol_fp(sol, net):
    out = []
    for n in net.node_labels:
        out.append(fp(sol.get_potential(n)))
    for b in net.branches:
        out.append(fp([sol.get_voltage(b.id), sol.get_current(b.id), sol.get_power(b.id)]))
    return out


def circuit_sol_fp(sol, circuit, t=None):
    from CircuitCalculator.Circuit.circuit import transform_circuit
    net = transform_circuit(circuit, 0.0)
    out = []
    def ev(x):
        if callable(x):
            return x(t)
        return x

    def get(getter, key):
        """the result, after checking that it is not an alias of the solution object's own state: the caller scribbles over what it
        was handed (arrays, lists, dicts edited in place) and asks again"""
        r = ev(getter(key))
        f = fp(r)
        scribble(r)
        f2 = fp(ev(getter(key)))
        if f2 != f:
            out.append(f'ALIAS:{getattr(getter, "__name__", "getter")}({key!r}): editing the returned object in place changes what the same call returns '
                       f'afterwards ({f[:60]} -> {f2[:60]})')
        return f
    for n in net.node_labels:
        out.append(get(sol.get_potential, n))
    for b in net.branches:
        out.append(fp([get(sol.get_voltage, b.id), get(sol.get_current, b.id), get(sol.get_power, b.id)]))
    return out


PROTECTED = []      # arrays of the shared pool (set by run_op)


def scribble(x, depth=0):
    """edit a returned object in place wherever Python allows it"""
    if depth > 4:
        return
    if isinstance(x, np.ndarray):
        if any(np.shares_memory(x, q) for q in PROTECTED):
            return          # the caller's own argument handed back (e.g. the time grid): editing it would be the CALLER changing its input
        if x.flags.writeable and x.size and x.dtype != object:
            try:
                x *= 0.5
                x += 1
            except Exception:  # noqa: BLE001
                pass
        elif x.dtype == object:
            for v in x.ravel():
                scribble(v, depth + 1)
    elif isinstance(x, list):
        for v in x:
            scribble(v, depth + 1)
        x.append('scribbled')
    elif isinstance(x, dict):
        for v in list(x.values()):
            scribble(v, depth + 1)
        x['scribbled'] = True
    elif isinstance(x, tuple):
        for v in x:
            scribble(v, depth + 1)


def run_op(pool, op):
    """op = [name, *args] (JSON-able); returns a fingerprint (str) of the result, exceptions by class name"""
    from CircuitCalculator.Network import transformers as trf
    from CircuitCalculator.Network import loaders
    from CircuitCalculator.Network.NodalAnalysis import bias_point_analysis as bpa
    from CircuitCalculator.Network.NodalAnalysis import node_analysis as na
    from CircuitCalculator.Network.NodalAnalysis.state_space_model import nodal_state_space_model
    from CircuitCalculator import dump_load
    from CircuitCalculator.Circuit import circuit as cc
    from CircuitCalculator.Circuit import solution as cs
    from CircuitCalculator.Circuit import impedance as cimp
    from CircuitCalculator.Circuit.state_space_model import state_space_model
    name, args = op[0], op[1:]
    PROTECTED[:] = [v for v in pool.values() if isinstance(v, np.ndarray)]
    try:
        if name == 'solve':
            net = pool[args[0]]
            return fp(sol_fp(bpa.nodal_analysis_bias_point_solver(net), net))
        if name == 'ocv':
            net = pool[args[0]]
            ls = net.node_labels
            return fp(bpa.open_circuit_voltage(net, ls[0], ls[-1]))
        if name == 'oci':
            net = pool[args[0]]
            ls = net.node_labels
            return fp(na.open_circuit_impedance(net, ls[0], ls[-1]))
        if name == 'isc':
            net = pool[args[0]]
            ls = net.node_labels
            return fp(bpa.short_circuit_current(net, ls[0], ls[-1]))
        if name == 'transformer':
            net = pool[args[1]]
            f = getattr(trf, args[0])
            if args[0] == 'switch_ground_node':
                r = f(net, net.node_labels[-1])
            elif args[0] == 'remove_element':
                r = f(net, net.branches[0].id)
            elif args[0] == 'remove_open_circuit_elements':
                r = f(net)
            elif args[2] == 'default':
                r = f(net)
            else:
                r = f(net, keep=pool[args[2]])
            return fp(r)
        if name == 'load_network':
            return fp(loaders.load_network(pool[args[0]]))
        if name == 'to_complex':
            return fp(loaders.to_complex(pool[args[0]], degree=args[1]))
        if name == 'serialize':
            return fp(dump_load.serialize(pool[args[0]], args[1]))
        if name == 'deserialize':
            return fp(dump_load.deserialize(pool[args[0]], 'json'))
        if name == 'roundtrip':
            return fp(dump_load.deserialize(dump_load.serialize(pool[args[0]], args[1]), args[1]))
        if name == 'transform':
            return fp(cc.transform(pool[args[0]], pool['wlist0']))
        if name == 'transform_default':
            return fp(cc.transform(pool[args[0]]))
        if name == 'frequency_components':
            return fp(cc.frequency_components(pool[args[0]], 120.0))
        if name == 'dc':
            c = pool[args[0]]
            return fp(circuit_sol_fp(cs.DCSolution(c), c))
        if name == 'complex':
            c = pool[args[0]]
            return fp(circuit_sol_fp(cs.ComplexSolution(c, w=args[1], peak_values=args[2]), c))
        if name == 'timedomain':
            c = pool[args[0]]
            return fp(circuit_sol_fp(cs.TimeDomainSolution(c, w_max=60.0), c, np.array([0.0, 0.01, 0.3])))
        if name == 'freqdomain':
            c = pool[args[0]]
            return fp(circuit_sol_fp(cs.FrequencyDomainSolution(c, w_max=60.0, one_sided=args[1]), c))
        if name == 'ssm':
            return fp(state_space_model(pool[args[0]], potential_nodes=[], voltage_ids=[], current_ids=[]))
        if name == 'ssm_default':
            return fp(state_space_model(pool[args[0]]))
        if name == 'nssm':
            k = args[0]
            net = cc.transform_circuit(pool[f'circ{k}'], 0.0)
            m = nodal_state_space_model(net, c_values=pool[f'cvals{k}'], l_values=pool[f'lvals{k}'])
            return fp([m.A, m.B, m.C, m.D, m.sources])
        if name == 'transient':
            c = pool[args[0]]
            from ssrun import sources_of
            srcs = [x.id for x in c.components if x.type in ('dc_voltage_source', 'dc_current_source')]
            s = cs.TransientSolution(c, tin=pool['tgrid'], input={i: (lambda t: np.minimum(t * 10, 1.0)) for i in srcs})
            return fp(circuit_sol_fp(s, c))
        if name == 'impedance':
            c = pool[args[0]]
            net = cc.transform_circuit(c, 0.0)
            return fp(cimp.open_circuit_impedance(c, net.node_labels[0], net.node_labels[-1], np.array([0.0, 3.0])))
        if name == 'make_circuit':
            c = cc.Circuit(pool[args[0]])
            return fp([c.ground_node, [x.id for x in c.components], circuit_sol_fp(cs.DCSolution(c), c)])
        if name == 'make_network':
            from CircuitCalculator.Network.network import Network
            n = Network(pool[args[0]], pool['net0'].node_zero_label)
            return fp([n.node_labels, [b.id for b in n.branches], sol_fp(bpa.nodal_analysis_bias_point_solver(n), n)])
        if name == 'fourier':
            from CircuitCalculator.SignalProcessing.periodic_functions import periodic_function, fourier_series
            wt, T, A, ph, off = pool[args[0]]
            fs = fourier_series(periodic_function(wt)(period=T, amplitude=A, phase=ph, offset=off))
            return fp([[fs.amplitude(n), fs.phase(n), fs.a(n), fs.b(n)] for n in range(0, 5)])
        if name == 'load_file':
            # the same path is written with different descriptions during one session
            import json as _json
            import tempfile
            d = os.path.join(tempfile.gettempdir(), f'c20_files_{os.getpid()}')
            os.makedirs(d, exist_ok=True)
            path = os.path.join(d, 'network.json')
            with open(path, 'w') as f:
                _json.dump(pool[args[0]], f)
            return fp(loaders.load_network_from_json(path))
        if name == 'dump_load_file':
            import tempfile
            d = os.path.join(tempfile.gettempdir(), f'c20_files_{os.getpid()}')
            os.makedirs(d, exist_ok=True)
            path = os.path.join(d, 'document.' + args[1])
            dump_load.dump(path, pool[args[0]])
            return fp(dump_load.load(path))
        if name == 'transform_res':
            # the same circuit object and frequency with another resolution (a memo must not forget the resolution)
            c = pool[args[0]]
            ws = [float(x.value['w']) for x in c.components if 'w' in x.value and float(x.value['w']) > 0]
            w = (ws[0] + args[1]) if ws else 50.0 + args[1]          # args[1]: offset from the first source frequency
            return fp(cc.transform_circuit(c, w, args[2]))
        if name == 'edit_schematic':
            # one Schematic object translated, edited IN PLACE so that the element count is unchanged (last resistor replaced), translated again:
            # the second translation must be the translation of a freshly drawn identical picture
            import matplotlib.pyplot as plt
            from CircuitCalculator.SimpleCircuit.DiagramTranslator import circuit_translator
            import CircuitCalculator.SimpleCircuit.Elements as elm

            def picture(r2):
                d = elm.Schematic(unit=3)
                v = elm.VoltageSource(V=12.0, name='V').up()
                d += v
                r1 = elm.Resistor(R=10.0, name='R1').right()
                d += r1
                d += elm.Line().at(v.start).right()
                d += elm.Ground().at(v.start)
                d += elm.Resistor(R=r2, name='R2').at(r1.end).down()
                return d, r1

            def summary(c):
                return [[(x.type, x.id, tuple(x.nodes), dict(x.value)) for x in c.components], c.ground_node]
            try:
                d, r1 = picture(24.0)
                first = summary(circuit_translator(d))
                # replace the last symbol (R2 = 24 ohm) by a 12 ohm resistor at the same place: same number of elements
                d.elements.pop()
                d += elm.Resistor(R=12.0, name='R2').at(r1.end).down()
                second = summary(circuit_translator(d))
                want = summary(circuit_translator(picture(12.0)[0]))
                vals = lambda s_: sorted((i, sorted(v.items())) for _, i, _, v in s_[0])
                if vals(second) != vals(want):
                    return 'STALE:second translation of the edited drawing ' + fp(vals(second)) + ' is not the translation of the same picture drawn afresh ' + fp(vals(want))
                return fp([vals(first), vals(second)])
            finally:
                plt.close('all')
        if name in ('create_schematic', 'simulate', 'schematic_roundtrip'):
            import matplotlib.pyplot as plt
            from CircuitCalculator.SimpleSimulation.schematic import create_schematic
            from CircuitCalculator.SimpleSimulation.simulator import simulate
            from CircuitCalculator.SimpleCircuit.DiagramTranslator import circuit_translator
            from CircuitCalculator.SimpleCircuit import dump_load as sdl
            from CircuitCalculator.SimpleCircuit import Elements as elm
            try:
                if name == 'simulate':
                    return fp(simulate({'circuit': pool[args[0]]}))
                if name == 'schematic_roundtrip':
                    # annotation labels are not in the persistable symbol set: the element list alone (the same shared list object)
                    sch = create_schematic({k: v for k, v in pool[args[0]].items() if k != 'solution'})
                    sch = sdl.deserialize(sdl.serialize(sch, 'json'), 'json')
                else:
                    sch = create_schematic(pool[args[0]])
                c = circuit_translator(sch)
                texts = [[type(e).__name__, [l.label for l in getattr(e, '_userlabels', [])]] for e in sch.elements
                         if isinstance(e, (elm.VoltageLabel, elm.CurrentLabel, elm.PowerLabel))]
                return fp([[(x.type, x.id, tuple(x.nodes), dict(x.value)) for x in c.components], c.ground_node, texts])
            finally:
                plt.close('all')
        return 'UNKNOWN-OP'
    except Exception as e:  # noqa: BLE001
        return 'EXC:' + type(e).__name__


def all_ops():
    ops = []
    for n in ('net0', 'net1', 'net2', 'net3'):
        ops += [['solve', n], ['ocv', n], ['oci', n], ['isc', n]]
        for t in ('switch_ground_node', 'remove_element', 'remove_open_circuit_elements'):
            ops.append(['transformer', t, n, 'default'])
        for t in ('remove_short_circuit_elements', 'short_circuitify_voltage_sources', 'open_circuitify_current_sources',
                  'remove_ideal_current_sources', 'remove_ideal_voltage_sources', 'passive_network'):
            for k in ('keep0', 'keep1', 'default'):
                ops.append(['transformer', t, n, k])
    ops += [['load_network', 'desc0'], ['to_complex', 'polar0', True], ['to_complex', 'polar0', False],
            ['serialize', 'doc0', 'json'], ['serialize', 'doc0', 'yaml'], ['serialize', 'flat0', 'json'], ['roundtrip', 'flat0', 'yaml'], ['deserialize', 'text0'], ['roundtrip', 'doc0', 'json'],
            ['roundtrip', 'doc0', 'yaml']]
    for c in ('circ0', 'circ1', 'circ2'):
        ops += [['transform', c], ['transform_default', c], ['frequency_components', c], ['dc', c], ['complex', c, 0.0, True],
                ['complex', c, 50.0, False], ['timedomain', c], ['freqdomain', c, True], ['freqdomain', c, False], ['impedance', c]]
    for c in ('circ0', 'circ1'):
        ops += [['ssm', c], ['ssm_default', c], ['transient', c]]
    ops += [['nssm', 0], ['nssm', 1]]
    for d in ('sdesc0', 'sdesc1'):
        ops += [['create_schematic', d], ['simulate', d], ['schematic_roundtrip', d]]
    ops += [['create_schematic', 'sdesc2'], ['edit_schematic']]
    for c in ('circ0', 'circ2'):
        ops += [['transform_res', c, 0.5, 1e-3], ['transform_res', c, 0.5, 2.0], ['transform_res', c, 0.0, 1e-3], ['transform_res', c, 0.0, 2.0]]
    ops += [['fourier', f'pf{k}'] for k in range(5)]
    ops += [['make_circuit', 'complist0'], ['make_circuit', 'complist1'], ['make_network', 'branchlist0']]
    ops += [['load_file', 'desc0'], ['load_file', 'desc1'], ['dump_load_file', 'doc0', 'json'], ['dump_load_file', 'flat0', 'json'],
            ['dump_load_file', 'doc0', 'yaml']]
    return ops


def pool_fp(pool):
    return {k: fp(v) for k, v in pool.items()}


def isolated_main(path_in, path_out):
    """child process: every op on a freshly built pool"""
    sys.path.insert(0, os.path.dirname(os.path.abspath(__file__)))
    import common
    common.pin_environment()
    job = json.load(open(path_in))
    out = {}
    # warm up: import the library once; every operation then runs in its OWN forked child on a freshly built pool, so that no module-level
    # state (a memo, an lru_cache, a default-argument object) left by one isolated evaluation can reach another
    import importlib
    for m in ('netgen', 'circgen', 'ssrun', 'exact', 'matplotlib.pyplot', 'scipy.signal', 'CircuitCalculator.Network.transformers',
              'CircuitCalculator.Network.loaders', 'CircuitCalculator.Network.NodalAnalysis.bias_point_analysis',
              'CircuitCalculator.Network.NodalAnalysis.state_space_model', 'CircuitCalculator.dump_load', 'CircuitCalculator.Circuit.circuit',
              'CircuitCalculator.Circuit.solution', 'CircuitCalculator.Circuit.impedance', 'CircuitCalculator.Circuit.state_space_model',
              'CircuitCalculator.SimpleSimulation.schematic', 'CircuitCalculator.SimpleSimulation.simulator',
              'CircuitCalculator.SimpleCircuit.DiagramTranslator', 'CircuitCalculator.SimpleCircuit.dump_load',
              'CircuitCalculator.SignalProcessing.periodic_functions'):
        importlib.import_module(m)          # imports only: nothing of the library is CALLED in the parent
    for op in job['ops']:
        r, w = os.pipe()
        pid = os.fork()
        if pid == 0:
            try:
                os.close(r)
                res = run_op(build_pool(job['pool_seed']), op)
                with os.fdopen(w, 'w') as f:
                    f.write(res)
            finally:
                os._exit(0)
        os.close(w)
        with os.fdopen(r) as f:
            out[json.dumps(op)] = f.read()
        os.waitpid(pid, 0)
    json.dump(out, open(path_out, 'w'))


def examine(ctx, pool_seed, hist_seed, length, must=()):
    import tempfile
    rng = random.Random(hist_seed)
    ops = all_ops()
    # `must`: this history's share of a partition of ALL operations (so that every operation is executed at least once per run),
    # mixed with random further calls
    history = [list(o) for o in must] + [rng.choice(ops) for _ in range(max(length - len(must), length // 3))]
    rng.shuffle(history)
    # repeat some calls back to back and revisit earlier ones
    for _ in range(length // 5):
        k = rng.randrange(len(history))
        history.insert(rng.randrange(len(history) + 1), history[k])
    distinct = []
    for op in history:
        if op not in distinct:
            distinct.append(op)
    with tempfile.TemporaryDirectory(prefix='c20_') as d:
        pin, pout = os.path.join(d, 'in.json'), os.path.join(d, 'out.json')
        json.dump({'pool_seed': pool_seed, 'ops': distinct}, open(pin, 'w'))
        env = dict(os.environ)
        r = subprocess.run([sys.executable, os.path.abspath(__file__), '--isolated', pin, pout], env=env, stdout=subprocess.PIPE,
                           stderr=subprocess.STDOUT, text=True, timeout=1800)
        if r.returncode != 0 or not os.path.exists(pout):
            ctx.violation('C20:isolated-evaluation-failed', r.stdout[-600:], {'pool_seed': pool_seed}, kind='obligation')
            return
        iso = json.load(open(pout))
    pool = build_pool(pool_seed)
    p0 = pool_fp(pool)
    d0 = library_defaults()
    rep_base = {'pool_seed': pool_seed, 'history_seed': hist_seed, 'length': length}
    seen_mut = set()
    for step, op in enumerate(history):
        ctx.evaluations += 1
        ctx.count('op:' + op[0] + (':' + op[1] if op[0] == 'transformer' else ''))
        r = run_op(pool, op)
        want = iso[json.dumps(op)]
        rep = dict(rep_base, step=step, op=op, history_prefix=history[:step + 1])
        if r.startswith('STALE:') and ('stale', op[0]) not in seen_mut:
            seen_mut.add(('stale', op[0]))
            ctx.violation('C20:result-depends-on-history:' + op[0], r[:400], dict(rep, history=[op]))
        if 'ALIAS:' in r:
            # observed, not judged: the property is about what the LIBRARY's calls do; a caller who edits a returned array in place and
            # thereby changes a later answer (on the unchanged tree: the time axis of TransientSolution is the caller's own `tin` array)
            # is outside it.  The scribbling itself still serves the comparison with the isolated run.
            ctx.count('returned-object-aliases-state(observed, not judged):' + op[0])
        if r != want:
            # minimise: shortest prefix ending in op that still differs is searched by replaying with ops removed
            small = minimise(pool_seed, history[:step + 1], want)
            ctx.violation('C20:result-depends-on-history:' + op[0] + (':' + op[1] if op[0] == 'transformer' else ''),
                          f'call {op} at step {step} differs from its result in isolation '
                          f'({r[:80]} vs {want[:80]}); minimal history: {small}', dict(rep, history=small))
            return
        p1 = pool_fp(pool)
        for k in p0:
            if p1[k] != p0[k]:
                if (k, op[0]) not in seen_mut:
                    seen_mut.add((k, op[0]))
                    ctx.violation('C20:argument-mutated:' + op[0] + (':' + op[1] if op[0] == 'transformer' else ''),
                                  f'call {op} changed the shared object {k!r}', dict(rep, object=k, history=[op]))
                pool[k] = build_pool(pool_seed)[k]        # restore, so that later calls are not blamed for it
        d1 = library_defaults()
        for k in d0:
            if d1.get(k) != d0[k] and (k, 'd') not in seen_mut:
                seen_mut.add((k, 'd'))
                # hidden state is the negation of the Frame premise of C20_history: the theorem no longer applies (an obligation).  Whether an
                # answer actually changes is what the comparison with the isolated run decides; a correct cache changes none.
                ctx.violation('C20:library-state-mutated', f'call {op} changed {k} (default argument or module-level container): the library keeps state '
                              f'between calls, the Frame premise of C20_history is not established for this history',
                              dict(rep, object=k, history=history[:step + 1]), kind='obligation')
    kinds = {op[0] for op in distinct}
    if len(distinct) >= 10 and 'transformer' in kinds and kinds & {'load_network', 'serialize', 'roundtrip', 'to_complex', 'deserialize'} \
            and kinds & {'solve', 'dc', 'complex', 'ssm', 'transient', 'timedomain', 'freqdomain', 'nssm'}:
        ctx.nontriv([pool_seed, hist_seed, length])
    ctx.sample({'pool_seed': pool_seed, 'history_seed': hist_seed, 'first_calls': history[:6], 'calls': len(history)}, cap=3)


def minimise(pool_seed, hist, want):
    """drop calls while the last call still differs from its isolated result"""
    cur = list(hist)
    changed = True
    budget = 60
    while changed and budget > 0:
        changed = False
        for k in range(len(cur) - 1):
            cand = cur[:k] + cur[k + 1:]
            budget -= 1
            pool = build_pool(pool_seed)
            r = None
            for op in cand:
                r = run_op(pool, op)
            if r != want:
                cur = cand
                changed = True
                break
            if budget <= 0:
                break
    return cur


def run(ctx):
    from common import standard_prologue
    ctx.trusted = TRUSTED
    ctx.assumptions = ['mutation through channels a structural fingerprint cannot see (C extensions, matplotlib state) is not observed']
    if standard_prologue(ctx):
        n = 4 if ctx.tier == 'quick' else 40
        ops = all_ops()
        random.Random(ctx.seed + 20).shuffle(ops)
        per = 4 if ctx.tier == 'quick' else 8          # histories per full pass over the operation list
        for k in range(n):
            share = ops[(k % per)::per]
            examine(ctx, ctx.seed * 1000 + k, ctx.seed * 7919 + k, 40 if ctx.tier == 'quick' else 80, must=share)
        ctx.extra['operations_in_registry'] = len(ops)
    return RULE


def replay(ctx, obj):
    from common import standard_prologue
    ctx.trusted = TRUSTED
    if standard_prologue(ctx):
        c = obj['case']
        examine(ctx, c['pool_seed'], c.get('history_seed', 0), c.get('length', 40))
    return RULE


if __name__ == '__main__':
    if len(sys.argv) == 4 and sys.argv[1] == '--isolated':
        isolated_main(sys.argv[2], sys.argv[3])
