"""C03 on the circuit-level paths: state-space model, transient simulation and port impedance of a Circuit must not depend on
component names, node names, listing order or the choice of reference node.  Metamorphic pairs on the implementation."""
import copy
import random

import numpy as np

import circgen
import circrun
import ssrun

# names chosen so that the renamed circuit sorts the kinds the OTHER way round (a voltage source above a current source, an
# inductor below a source, '10' < '9')
POOLS = [
    {'dc_voltage_source': ['A_src', 'Gen', 'B1'], 'dc_current_source': ['Iload', 'Z_src', 'k'], 'capacitor': ['Zc', 'x2', 'c'],
     'inductance': ['Aa', 'l', 'M1'], 'resistor': ['r1', 'R9', 'R10', 'Q', 'q', 'R_']},
    {'dc_voltage_source': ['Z', 'w', 'V9'], 'dc_current_source': ['A', 'B', 'I10'], 'capacitor': ['C10', 'C9', 'a'],
     'inductance': ['Zz', 'L10', 'L9'], 'resistor': ['1', '10', '9', 'R', 'S', 'T']},
]
NODE_POOLS = [['10', '9', 'Z', 'a', 'gnd', '0', 'n'], ['b', 'B', '2', '11', 'x', 'Y', '_']]


def renamed(case, rng):
    pool = rng.choice(POOLS)
    used, im = set(), {}
    for c in case['components']:
        if c['kind'] == 'ground':
            continue
        cand = [n for n in pool.get(c['kind'], []) if n not in used] or [f'{c["kind"][:2]}_{len(used)}']
        im[c['id']] = rng.choice(cand)
        used.add(im[c['id']])
    nodes = sorted({n for c in case['components'] for n in c['nodes']})
    names = rng.sample(rng.choice(NODE_POOLS), len(nodes)) if len(nodes) <= 7 else [f'n{k}' for k in range(len(nodes))]
    nm = dict(zip(nodes, names))
    out = copy.deepcopy(case)
    for c in out['components']:
        if c['kind'] != 'ground':
            c['id'] = im[c['id']]
        c['nodes'] = [nm[n] for n in c['nodes']]
    rng.shuffle(out['components'])
    return out, im, nm


def transient(case, inputs, t):
    """-> (V, I, PH) dictionaries of time series"""
    from CircuitCalculator.Circuit.solution import TransientSolution
    circuit, _ = circrun.build_impl(case)
    sol = TransientSolution(circuit, tin=t, input=inputs)
    ids = [c['id'] for c in case['components'] if c['kind'] != 'ground']
    nodes = sorted({n for c in case['components'] for n in c['nodes']})
    V = {i: np.asarray(sol.get_voltage(i)[1], dtype=float) for i in ids}
    I = {i: np.asarray(sol.get_current(i)[1], dtype=float) for i in ids}
    PH = {n: np.asarray(sol.get_potential(n)[1], dtype=float) for n in nodes}
    return V, I, PH


def check_pair(case, rng, fixed=None):
    """-> list of (key, what, replay); fixed = (renamed circuit, id map, node map) to replay a recorded pair"""
    bad = []
    other, im, nm = fixed or renamed(case, rng)
    srcs = ssrun.sources_of(case)
    m = ssrun.impl_model(case)
    lam = np.linalg.eigvals(m['A']) if m['A'].shape[0] else np.array([])
    rates = np.abs(lam[np.abs(lam) > 1e-12]) if len(lam) else np.array([])
    fast = rates.max() if len(rates) else 1.0
    slow = rates.min() if len(rates) else 1.0
    if fast / slow > 1e4:
        return None          # stiff: the comparison would be dominated by the integrator, not by naming
    h = 0.05 / fast
    t = np.arange(0, min(6.0 / slow, 400 * h), h)
    amps = {s: (k + 1) * (1.0 if k % 2 == 0 else -0.5) for k, s in enumerate(sorted(srcs))}       # a different waveform per source

    def wf(a, k):
        return lambda tt, a=a, k=k: a * np.minimum(np.asarray(tt) / (t[len(t) // (4 + k)] + 1e-300), 1.0)
    inp = {s: wf(amps[s], k) for k, s in enumerate(sorted(srcs))}
    inp2 = {im[s]: inp[s] for s in srcs}
    rep = {'circuit': case, 'renamed': other, 'ids': im, 'nodes': nm}
    try:
        V, I, PH = transient(case, inp, t)
    except Exception as e:  # noqa: BLE001
        return None if type(e).__name__ in ('LinAlgError',) else [(f'C03:transient-raises-{type(e).__name__}', str(e)[:120], rep)]
    try:
        V2, I2, PH2 = transient(other, inp2, t)
    except Exception as e:  # noqa: BLE001
        return [(f'C03:transient-of-renamed-circuit-raises-{type(e).__name__}', str(e)[:120], rep)]
    sv = max([np.max(np.abs(v)) for v in V.values()] + [1e-12])
    rmin = min([c['params']['R'] for c in case['components'] if c['kind'] == 'resistor'] + [1.0])
    # a current scale even when nothing flows (a source with no closed path): what the voltages could drive through the smallest resistor
    si = max([np.max(np.abs(v)) for v in I.values()] + [1e-12, 1e-6 * sv / rmin])
    g, g2 = circgen.expected_ground(case), circgen.expected_ground(other)
    for i in V:
        if np.max(np.abs(V[i] - V2[im[i]])) > 1e-6 * sv or np.max(np.abs(I[i] - I2[im[i]])) > 1e-6 * si:
            bad.append(('C03:transient-depends-on-names', f'element {i!r} (renamed {im[i]!r}): the simulated voltage / current changes when '
                        f'components and nodes are renamed and relisted (max dv {np.max(np.abs(V[i] - V2[im[i]])):.3g} of {sv:.3g}, '
                        f'max di {np.max(np.abs(I[i] - I2[im[i]])):.3g} of {si:.3g})', rep))
            return bad
    # the reference node is a function of the listing (ground symbol or first component): potentials agree up to that shift
    for n in PH:
        shift = PH[g] - PH2[nm[g]] if nm[g] in PH2 else 0
        if np.max(np.abs((PH[n] - PH[g]) - (PH2[nm[n]] - PH2[nm[g]]))) > 1e-6 * sv:
            bad.append(('C03:transient-depends-on-names', f'potential of node {n!r} relative to {g!r} changes under renaming', rep))
            return bad
    # state-space transfer function at a few frequencies: outputs/inputs matched by name
    m2 = ssrun.impl_model(other)
    for w in (0.0, 0.7 * fast, 3.0 * slow):
        try:
            H, H2 = ssrun.transfer(m, w), ssrun.transfer(m2, w)
        except Exception:  # noqa: BLE001
            continue
        nout = len(m['nodes'])
        for a, s in enumerate(m['sources']):
            if im[s] not in m2['sources']:
                bad.append(('C03:state-space-sources-differ', f'{s!r} -> {im[s]!r} not among {m2["sources"]}', rep))
                return bad
            a2 = m2['sources'].index(im[s])
            for r, i in enumerate(m['ids']):
                r2 = m2['ids'].index(im[i])
                x, y = H[nout + r, a], H2[len(m2['nodes']) + r2, a2]
                # voltages per unit of source: scale of the whole voltage block (a column can be exactly zero, e.g. at DC behind an inductor)
                scale = max(np.max(np.abs(H[nout:nout + len(m['ids']), :])), 1e-6)
                if abs(x - y) > 1e-6 * scale:
                    bad.append(('C03:state-space-depends-on-names', f'transfer from source {s!r} to the voltage of {i!r} at w={w}: {x} vs {y} after '
                                f'renaming', rep))
                    return bad
    return bad


def examine(ctx):
    rng = random.Random(ctx.seed + 303)
    n = 30 if ctx.tier == 'quick' else 600
    done = 0
    tries = 0
    while done < n and tries < 40 * n:
        tries += 1
        case = ssrun.gen_circuit(rng)
        kinds = {c['kind'] for c in case['components']}
        if not ({'capacitor', 'inductance'} & kinds) or not ssrun.nondegenerate(case):
            continue
        # two of three cases carry both kinds of source (their relative order is what renaming changes)
        if done % 3 and not {'dc_voltage_source', 'dc_current_source'} <= kinds:
            continue
        ctx.evaluations += 1
        r = check_pair(case, rng)
        if r is None:
            ctx.count('circuit-level:stiff-or-singular(skipped)')
            continue
        done += 1
        ctx.count('circuit-level:transient+state-space pairs')
        for key, what, rep in r:
            ctx.violation(key, what, rep)
        ctx.nontriv(['circuit-level', [(c['kind'], c['id'], c['nodes']) for c in case['components']]])


def replay(ctx, obj):
    c = obj['case']
    ctx.evaluations += 1
    r = check_pair(c['circuit'], random.Random(0), fixed=(c['renamed'], c['ids'], c['nodes']) if 'renamed' in c else None)
    for key, what, rep in (r or []):
        ctx.violation(key, what, rep)
