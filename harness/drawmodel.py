"""C13 correspondence: SchematicDiagramParser / circuit_translator vs the extracted Coq model (Model/Drawing.v, runner fn 13).

Every program is built into a LIVE schemdraw drawing; from the live objects are read: the class of every element, its name,
is_reverse, node_id, the rounded anchors elm.get_nodes(e) as hundredths, and the iteration orders of parser.all_nodes and
parser.unique_nodes (set iteration order is a parameter of the model).  Compared exactly: unique_node_mapping and _get_node_index of
every point, node_label_mapping (items in insertion order), ground_label (or its exception class), the translated components
(type, id, nodes) and, for sources, whether the value handed to the component is minus the value given to the symbol."""
import copy
import random

import drawgen
from common import Toks, run_model, t_label, t_list, ERR_NAMES

CLASS_CODES = {'Resistor': 1, 'Impedance': 2, 'Conductance': 3, 'VoltageSource': 4, 'ComplexVoltageSource': 5, 'CurrentSource': 6,
               'ComplexCurrentSource': 7, 'ACVoltageSource': 8, 'ACCurrentSource': 9, 'RectVoltageSource': 10, 'RectCurrentSource': 11,
               'TriangleVoltageSource': 12, 'TriangleCurrentSource': 13, 'SawtoothVoltageSource': 14, 'SawtoothCurrentSource': 15,
               'Capacitor': 16, 'Inductance': 17, 'Lamp': 18, 'Ground': 19, 'Line': 20, 'LabeledLine': 21, 'Node': 22, 'LabelNode': 23,
               'RealCurrentSource': 24, 'RealVoltageSource': 25, 'Switch': 26, 'Admittance': 27}


def class_table():
    import CircuitCalculator.SimpleCircuit.Elements as elm
    return {getattr(elm, n): c for n, c in CLASS_CODES.items()}


def hundredths(p):
    return (int(round(100 * p.x)), int(round(100 * p.y)))


def t_point(p):
    return [p[0], p[1]]


def read_live(d, table):
    """symbols of the live drawing as the model sees them"""
    import CircuitCalculator.SimpleCircuit.Elements as elm
    syms = []
    for e in d.elements:
        code = table.get(type(e))
        if code is None:
            return None
        nodes = elm.get_nodes(e)
        if len(nodes) != 2:
            return None
        syms.append({'cls': code, 'name': e.name, 'reverse': bool(getattr(e, 'is_reverse', False)), 'start': hundredths(nodes[0]),
                     'end': hundredths(nodes[1]), 'node_id': getattr(e, 'node_id', '') if isinstance(e, elm.Node) else ''})
    return syms


def tok_case(syms, oa, ou):
    t = [13, len(syms)]
    for s in syms:
        t += [s['cls']] + t_label(s['name']) + [1 if s['reverse'] else 0] + t_point(s['start']) + t_point(s['end']) + t_label(s['node_id'])
    t += t_list(oa, t_point) + t_list(ou, t_point)
    return t


def decode(toks):
    t = Toks(toks)
    tag = t.z()
    if tag != 0:
        out = {'tag': tag}
        if tag == 2:
            out['all_nodes'] = t.lst(lambda: (t.z(), t.z()))
            out['unique_nodes'] = t.lst(lambda: (t.z(), t.z()))
        return out

    def opt(dec):
        return dec() if t.z() == 1 else None

    def per_point():
        p = (t.z(), t.z())
        u = opt(lambda: (t.z(), t.z()))
        lab = opt(t.label)
        return p, u, lab
    pts = t.lst(per_point)
    nlm = t.lst(lambda: ((t.z(), t.z()), t.label()))
    ground = t.res(t.label)

    def comp():
        kind = t.label()
        cid = t.label()
        nodes = t.lst(t.label)
        neg = t.z() == 1
        return (kind, cid, tuple(nodes), neg)
    comps = t.res(lambda: t.lst(comp))
    assert t.done(), 'trailing tokens'
    return {'tag': 0, 'points': pts, 'nlm': nlm, 'ground': ground, 'components': comps}


VALUE_KEY = {'dc_voltage_source': ('V',), 'ac_voltage_source': ('V',), 'periodic_voltage_source': ('V',), 'complex_voltage_source': ('V_real', 'V_imag'),
             'dc_current_source': ('I',), 'ac_current_source': ('I',), 'periodic_current_source': ('I',), 'complex_current_source': ('I_real', 'I_imag')}


def given_value(sym):
    kw = sym['kw']
    v = kw.get('V', kw.get('I'))
    return complex(*v) if isinstance(v, list) else complex(v)


def impl_side(d, program):
    """what the implementation computes on the live drawing"""
    import CircuitCalculator.SimpleCircuit.Elements as elm
    from CircuitCalculator.SimpleCircuit.DiagramParser import SchematicDiagramParser
    from CircuitCalculator.SimpleCircuit.DiagramTranslator import DiagramTranslator, circuit_translator
    from CircuitCalculator.SimpleCircuit.CircuitComponentTranslators import circuit_translator_map
    parser = SchematicDiagramParser(d)
    oa = [hundredths(p) for p in parser.all_nodes]
    ou = [hundredths(p) for p in parser.unique_nodes]
    unm = {hundredths(k): hundredths(v) for k, v in parser.unique_node_mapping.items()}
    nlm = [(hundredths(k), v) for k, v in parser.node_label_mapping.items()]
    idx = {}
    for p in parser.all_nodes:
        idx[hundredths(p)] = parser._get_node_index(p)
    try:
        ground = ('ok', parser.ground_label)
    except Exception as e:  # noqa: BLE001 - the class is the observable
        ground = ('err', type(e).__name__)
    how = 'circuit_translator'
    try:
        try:
            comps = circuit_translator(d).components
        except Exception as e:  # noqa: BLE001
            if type(e).__name__ == 'UnknownTranslator':
                raise
            how = 'DiagramTranslator'            # Circuit(...) itself refused the list (its own ground / id rules: C07)
            tr = DiagramTranslator(parser, circuit_translator_map)
            comps = [c for c in (tr(e) for e in parser.all_elements) if c is not None]
        by_name = {s['name']: s for s in program['symbols'] if s['cls'].endswith('Source')}
        out = []
        for c in comps:
            neg = False
            if c.type in VALUE_KEY and c.id in by_name:
                got = complex(*[c.value[k] for k in VALUE_KEY[c.type]]) if len(VALUE_KEY[c.type]) == 2 else complex(c.value[VALUE_KEY[c.type][0]])
                want = given_value(by_name[c.id])
                if abs(got - want) <= 1e-12 * abs(want):
                    neg = False
                elif abs(got + want) <= 1e-12 * abs(want):
                    neg = True
                else:
                    neg = f'value {got} is neither +/- the given {want}'
            out.append((c.type, c.id, tuple(c.nodes), neg))
        comps = ('ok', out)
    except Exception as e:  # noqa: BLE001
        comps = ('err', type(e).__name__)
    return {'oa': oa, 'ou': ou, 'unm': unm, 'nlm': nlm, 'idx': idx, 'ground': ground, 'components': comps, 'how': how}


ERR_MAP = {'UnknownCircuitComponent': 'UnknownTranslator'}


def norm_res(r):
    if r[0] == 'err':
        return ('err', ERR_MAP.get(r[1], r[1]))
    return r


def extra_programs(rng):
    """cases the property's generator leaves out but the parser accepts: several labels on one class, two grounds, no ground,
    a class without translator, a reversed labelled wire, Node symbols, numeric labels that collide with the auto numbering"""
    def L(p, q):
        return {'cls': 'Line', 'name': '', 'p': list(p), 'q': list(q), 'reverse': False, 'kw': {}}

    def R(n, p, q, r=10.0):
        return {'cls': 'Resistor', 'name': n, 'p': list(p), 'q': list(q), 'reverse': False, 'kw': {'R': r}}

    def V(n, p, q, v=10.0, rev=False):
        return {'cls': 'VoltageSource', 'name': n, 'p': list(p), 'q': list(q), 'reverse': rev, 'kw': {'V': v}}

    def N(n, p, cls='LabelNode'):
        return {'cls': cls, 'name': n, 'p': list(p), 'q': None, 'reverse': False, 'kw': {}}
    base = [V('V1', (0, 0), (0, 1)), R('R1', (0, 1), (1, 1)), L((1, 1), (2, 1)), R('R2', (2, 1), (2, 0)), L((2, 0), (1, 0)), L((1, 0), (0, 0))]
    out = []
    out.append({'unit': 3, 'symbols': base + [N('A', (1, 1)), N('B', (2, 1))]})                      # two labels on one class: last wins
    out.append({'unit': 3, 'symbols': base + [N('B', (2, 1)), N('A', (1, 1))]})
    out.append({'unit': 3, 'symbols': base + [N('0', (0, 0), 'Ground'), N('0', (2, 0), 'Ground')]})  # two grounds
    out.append({'unit': 3, 'symbols': base + [N('0', (0, 0), 'Ground'), N('G', (0, 1), 'Ground')]})
    out.append({'unit': 3, 'symbols': base})                                                          # no ground
    out.append({'unit': 3, 'symbols': base + [N('A', (0, 1)), N('A', (2, 1))]})                      # one label on two classes
    out.append({'unit': 3, 'symbols': base + [N('1', (2, 1)), N('0', (0, 0), 'Ground')]})            # '1' taken: auto numbering skips
    out.append({'unit': 3, 'symbols': base + [N('2', (2, 1)), N('3', (0, 1), 'Node'), N('0', (0, 0), 'Ground')]})
    out.append({'unit': 3, 'symbols': base + [N('3', (2, 1)), N('0', (0, 0), 'Ground')]})
    out.append({'unit': 3, 'symbols': base + [{'cls': 'Admittance', 'name': 'Y1', 'p': [0, 1], 'q': [0, 2], 'reverse': False, 'kw': {'Y': 2.0}}]})
    out.append({'unit': 3, 'symbols': base + [{'cls': 'LabeledLine', 'name': 'S1', 'p': [0, 1], 'q': [0, 2], 'reverse': True, 'kw': {'reverse': True}},
                                              R('R9', (0, 2), (1, 2)), L((1, 2), (1, 1))]})
    for _ in range(12):                                                                              # random: labels anywhere, 0-2 grounds
        p = drawgen.random_program(rng, max_cells=2, with_ground=False, n_labels=0)
        touched = sorted({tuple(s['p']) for s in p['symbols']} | {tuple(s['q']) for s in p['symbols'] if s['q'] is not None})
        for _ in range(rng.randint(0, 4)):
            p['symbols'].append(N(rng.choice(['A', 'B', '1', '2', '3', '4', '5', '0']), rng.choice(touched), rng.choice(['LabelNode', 'Node'])))
        for _ in range(rng.choice([0, 1, 1, 2])):
            p['symbols'].append(N(rng.choice(['0', 'gnd']), rng.choice(touched), 'Ground'))
        rng.shuffle(p['symbols'])
        out.append(p)
    return out


def real_source_drawings():
    """Real{Voltage,Current}Source are compound symbols without .endpoints(): drawn directly, a resistor closing the loop"""
    import CircuitCalculator.SimpleCircuit.Elements as elm
    out = []
    for cname, kw in (('RealVoltageSource', {'V': 5.0, 'R': 2.0}), ('RealCurrentSource', {'I': 4.0, 'R': 2.0})):
        for rev in (False, True):
            for with_ground in (True, False):
                d = elm.Schematic(unit=3)
                e = getattr(elm, cname)(name='Q1', reverse=rev, **kw)
                d.add(e)
                d.add(elm.Resistor(R=10.0, name='R1').endpoints(e.end, e.start))
                if with_ground:
                    d.add(elm.Ground().at(e.start))
                prog = {'unit': 3, 'direct': f'{cname}(reverse={rev}) + Resistor end->start' + (' + Ground at start' if with_ground else ''),
                        'symbols': [{'cls': cname, 'name': 'Q1', 'reverse': rev, 'kw': kw}]}
                out.append((prog, d))
    return out


def correspond(ctx, programs, rng):
    import matplotlib.pyplot as plt
    table = class_table()
    cases = []
    progs = []
    try:
        for prog, d in real_source_drawings():
            syms = read_live(d, table)
            if syms is None:
                ctx.count('correspondence:skipped-outside-model-scope')
                continue
            cases.append(('real-source', prog, syms, impl_side(d, prog)))
            plt.close('all')
    except Exception as e:  # noqa: BLE001
        ctx.violation(f'correspondence:C13-real-source-raises-{type(e).__name__}', str(e)[:160], {'program': 'real_source_drawings'}, kind='obligation')
    for p in list(programs) + extra_programs(rng):
        progs.append(('as-drawn', p))
        if len(p['symbols']) > 4:
            progs.append(('rotated', drawgen.rotate(p, rng.choice([1, 2, 3]))))
            progs.append(('translated', drawgen.translate(p, rng.randint(-5, 5), rng.randint(-5, 5))))
            progs.append(('reordered', drawgen.reorder(p, rng)))
            progs.append(('subdivided', drawgen.subdivide(p, rng)))
    for vname, prog in progs:
        try:
            d, live = drawgen.build(prog)
        except Exception:  # noqa: BLE001 - reported by the implementation-side check
            continue
        syms = read_live(d, table)
        if syms is None:
            ctx.count('correspondence:skipped-outside-model-scope')
            continue
        try:
            impl = impl_side(d, prog)
        except Exception as e:  # noqa: BLE001
            ctx.violation(f'correspondence:C13-parser-raises-{type(e).__name__}', f'the parser raised {type(e).__name__}: {str(e)[:120]} on a drawing '
                          'of supported symbols; the model has no such exception', {'program': prog, 'variant': vname}, kind='obligation')
            plt.close('all')
            continue
        plt.close('all')
        cases.append((vname, prog, syms, impl))
    outs = run_model([tok_case(s, i['oa'], i['ou']) for _, _, s, i in cases])
    for (vname, prog, syms, impl), toks in zip(cases, outs):
        ctx.count('correspondence:cases')
        rep = {'program': prog, 'variant': vname}
        try:
            m = decode(toks)
        except Exception as e:  # noqa: BLE001
            ctx.violation('correspondence:C13-undecodable-model-result', f'{type(e).__name__}: {toks[:20]}', rep, kind='obligation')
            continue
        if m['tag'] == 2:
            ctx.violation('correspondence:C13-node-sets', f"the model's all_nodes {sorted(m['all_nodes'])} / unique_nodes {sorted(m['unique_nodes'])} are not "
                          f"enumerated by the observed all_nodes {sorted(impl['oa'])} / unique_nodes {sorted(impl['ou'])}", rep, kind='obligation')
            continue
        if m['tag'] != 0:
            ctx.violation('correspondence:C13-model-rejects', f'model result {toks[:8]}', rep, kind='obligation')
            continue
        bad = None
        for p, u, lab in m['points']:
            if impl['unm'].get(p) != u:
                bad = ('unique_node_mapping', f'point {p}: implementation {impl["unm"].get(p)}, model {u}')
            elif impl['idx'].get(p) != lab:
                bad = ('node-index', f'point {p}: implementation {impl["idx"].get(p)!r}, model {lab!r}')
        if bad is None and impl['nlm'] != m['nlm']:
            bad = ('node_label_mapping', f'implementation {impl["nlm"]}, model {m["nlm"]}')
        if bad is None and norm_res(impl['ground']) != norm_res(m['ground']):
            bad = ('ground_label', f'implementation {impl["ground"]}, model {m["ground"]}')
        if bad is None and norm_res(impl['components']) != norm_res(m['components']):
            bad = ('components', f'implementation ({impl["how"]}) {impl["components"]}, model {m["components"]}')
        if bad is not None:
            ctx.violation('correspondence:C13-' + bad[0], bad[1], rep, kind='obligation')
            continue
        ctx.count('correspondence:agree')
        ctx.count('correspondence:ground:' + (impl['ground'][1] if impl['ground'][0] == 'err' else 'ok'))
        ctx.count('correspondence:components:' + (impl['components'][1] if impl['components'][0] == 'err' else impl['how']))
        if any(c[3] is True for c in (impl['components'][1] if impl['components'][0] == 'ok' else [])):
            ctx.count('correspondence:negated-source-value')
