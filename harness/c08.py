"""C08 — Fourier series of the built-in periodic waveforms are the true coefficients.

Three layers:
 1. proof: Properties/C08.v over the TRANSLATED Gen/Periodic.v (standard_prologue re-runs translator + build).
 2. correspondence: Gen/Periodic.v + Model/Harmonics.v evaluated exactly at Q (Model/RopsQ.v, pi := the double np.pi,
    cos/sin := Taylor polynomials) by `coqc` (vm_compute) against the Python methods amplitude/phase/a/b/c, the
    time functions and periodic_function/fourier_series.
 3. search (numerical, implementation only): Gauss-Legendre quadrature of time_function against amplitude/phase with
    the breakpoints aligned, and the Parseval partial sums (the clause that is stated but not proved).
"""
import math
import os
import random
import re
from fractions import Fraction

import numpy as np

from common import standard_prologue, sh, COQ

RULE = ('cases = the six built-in waveforms x parameter sets (period, amplitude, phase, offset: corpus of special values '
        '(phase 0, +-pi/2, > 2 pi, negative; negative amplitude; offset 0) + seeded random 3-decimal values).  '
        'correspondence: amplitude(n), phase(n) for n in 0..12, 50, 399, 400 and negatives; a, b, c for small n; the time '
        'function at points away from the breakpoints; periodic_function on the six names and on non-names; all against the '
        'translated Gallina evaluated exactly over Q.  search: quadrature of time_function x cos/sin(n w0 t), n <= 8 (quick) or '
        '<= 24 (thorough), against T/2 amplitude cos(phase), -T/2 amplitude sin(phase), the mean for n = 0, and the Parseval '
        'partial sums against the mean square.  distinct = (wave, parameters); non-trivial = amplitude != 0 and period > 0')

TRUSTED = ['Coq kernel + coqc 8.16.1', 'Coquelicot (Riemann integral)', 'tools/gen_periodic.py (translator, fail-closed)',
           'Model/Harmonics.v hand model of AbstractHarmonicCoefficients / fourier_series / periodic_function: the five generic methods and '
           'periodic_function are regenerated and proved equal to it (C08c); the class header, the abstract stubs and fourier_series are pinned text',
           'R instance of rops: rmod x T = x - T floor(x/T) is taken as the meaning of float % / np.mod',
           'numpy cos/sin/mod/vectorize, float rounding (correspondence is checked to 1e-11 relative)']

WAVES = ['const', 'cos', 'sin', 'rect', 'tri', 'saw']          # index = position in fourier_series_mapping
NS_CORR = list(range(0, 13)) + [50, 399, 400] + [-1, -2, -3, -7, -400]
NS_ABC = [0, 1, 2, 3, -1, -2, -3]


# ------------------------------------------------------------------ exact model evaluation through coqc
def q_lit(x):
    f = Fraction(x)
    return f'(({f.numerator}) # {f.denominator})'


def coq_label(s):
    return '[' + '; '.join(f'{ord(c)}%N' for c in s) + ']'


_INT = re.compile(r'-?\d+')


def model_eval(blocks, tag='C08Eval'):
    """blocks: list of Coq terms of type `list Q`; returns a list of lists of Fractions (one coqc run)."""
    run = os.path.join(COQ, 'Run')
    os.makedirs(run, exist_ok=True)
    lines = ['From Coq Require Import ZArith NArith QArith List.',
             'From CC Require Import Model.Network Model.Rops Model.RopsQ Gen.Periodic Model.Harmonics.',
             'Import ListNotations.', 'Open Scope Q_scope.',
             'Definition out (q : Q) : Z * Z := (Qnum q, Zpos (Qden q)).',
             'Definition hq (i : N) (p a ph o : Q) (k : harmonics QOps -> list Q) : list Q :=',
             '  match fourier_series QOps i p a ph o with POk h => k h | PErr _ => [] end.',
             'Definition tq (i : N) (p a ph o : Q) (ts : list Q) : list Q :=',
             '  match time_function QOps i with Some f => map (f p a ph o) ts | None => [] end.',
             'Definition lk (name : list N) : list Q :=',
             '  match periodic_function name with POk i => [0; inject_Z (Z.of_N i)] | PErr EUnknownWavetype => [1]',
             '  | PErr ETransformationError => [2] end.']
    for b in blocks:
        lines.append(f'Eval vm_compute in (map out ({b})).')
    path = os.path.join(run, f'{tag}.v')
    with open(path, 'w') as f:
        f.write('\n'.join(lines) + '\n')
    rc, out = sh(f'timeout 1200 coqc -Q . CC Run/{tag}.v 2>&1', 1300, cwd=COQ)
    if rc != 0:
        raise RuntimeError('model evaluation failed: ' + out[-1500:])
    parts = re.split(r'^\s*= ', out, flags=re.M)[1:]
    if len(parts) != len(blocks):
        raise RuntimeError(f'model evaluation: {len(parts)} results for {len(blocks)} queries')
    res = []
    for p in parts:
        p = p.split('\n     : ')[0]
        ints = [int(x) for x in _INT.findall(p.replace('%Z', ''))]      # printed as (n%Z, d%Z) / ((-n)%Z, d%Z)
        if len(ints) % 2:
            raise RuntimeError('model evaluation: unparsable result ' + p[:200])
        res.append([Fraction(a, b) for a, b in zip(ints[0::2], ints[1::2])])
    return res


# ------------------------------------------------------------------ cases
def corpus():
    pi = math.pi
    return [
        (1.0, 1.0, 0.0, 0.0), (2.0, 1.5, 0.0, 0.25), (0.02, 230.0, pi / 2, 0.0), (3.7, -2.0, -pi / 2, 1.0),
        (1.0, 1.0, 7.0, -0.5), (5.0, 0.75, -4.0, 0.0), (0.5, 2.0, pi, 3.0), (1.0, 0.0, 1.0, 2.0), (2.0, 1.0, 2 * pi, 0.0),
        (1e-3, 1e3, 0.3, -1e3),
    ]


def gen_params(ctx):
    rng = random.Random(ctx.seed * 7919 + 8)
    k = 8 if ctx.tier == 'quick' else 40
    out = list(corpus())
    for _ in range(k):
        out.append((round(rng.uniform(0.05, 9.0), 3), round(rng.uniform(-5, 5), 3), round(rng.uniform(-7, 7), 3),
                    round(rng.uniform(-3, 3), 3)))
    return out


def instance(pf, wave, prm):
    cls = pf.periodic_function(wave)
    return cls(period=prm[0], amplitude=prm[1], phase=prm[2], offset=prm[3])


def safe_times(rng, wave, prm, k):
    """sample points; for the piecewise waves keep (t + t0) mod T away from 0 and T/2 (float % may round across)"""
    T, _, ph, _ = (Fraction(x) for x in prm)
    t0 = ph / 2 / Fraction(math.pi) * T
    ts = []
    while len(ts) < k:
        if wave in ('cos', 'sin'):
            # keep |2 pi / T t + phase| <= 8 (range of the Taylor stand-in)
            x = rng.uniform(-7.0, 7.0)
            t = (x - prm[2]) * prm[0] / (2 * math.pi)
            if abs(2 * math.pi / prm[0] * t + prm[2]) > 7.5:
                continue
        else:
            t = round(rng.uniform(-2.5, 2.5) * prm[0], 6)
        u = (Fraction(t) + t0) % T
        if wave in ('rect', 'tri', 'saw') and (min(u, T - u) < T / 10 ** 6 or abs(u - T / 2) < T / 10 ** 6):
            continue
        ts.append(t)
    return ts


# ------------------------------------------------------------------ correspondence
def close(x, y, scale):
    return abs(x - y) <= 1e-11 * max(1.0, abs(scale), abs(x))


def correspondence(ctx, pf, cases):
    rng = random.Random(ctx.seed + 31)
    blocks, meta = [], []
    for wave, prm in cases:
        i = WAVES.index(wave)
        args = ' '.join(q_lit(x) for x in prm)
        ns = '; '.join(f'({n})%Z' for n in NS_CORR)
        blocks.append(f'hq {i} {args} (fun h => flat_map (fun n => [amplitude QOps h n; phase QOps h n]) [{ns}])')
        meta.append(('ap', wave, prm, None))
        if 3 * abs(prm[2]) + math.pi / 2 <= 7.5:
            ns = '; '.join(f'({n})%Z' for n in NS_ABC)
            blocks.append(f'hq {i} {args} (fun h => flat_map (fun n => [coef_a QOps h n; coef_b QOps h n; '
                          f'fst (coef_c QOps h n); snd (coef_c QOps h n)]) [{ns}])')
            meta.append(('abc', wave, prm, None))
        ts = safe_times(rng, wave, prm, 5)
        blocks.append(f'tq {i} {args} [{"; ".join(q_lit(t) for t in ts)}]')
        meta.append(('time', wave, prm, ts))
    names = WAVES + ['', 'Rect', 'rect ', 'square', 'cosine', 'sawé']
    for nm in names:
        blocks.append(f'lk {coq_label(nm)}')
        meta.append(('lookup', nm, None, None))
    res = model_eval(blocks)
    for (kind, wave, prm, ts), vals in zip(meta, res):
        ctx.evaluations += 1
        ctx.count('corr:' + kind)
        key = f'correspondence:C08-{kind}'
        replay = {'wave': wave, 'params': prm, 'kind': kind}
        if kind == 'lookup':
            try:
                cls = pf.periodic_function(wave)
                got = [0, pf.periodic_functions.index(cls)]
                if cls is not pf.periodic_functions[got[1]] or list(pf.fourier_series_mapping.keys())[got[1]] is not cls:
                    got = ['?']
            except pf.UnknownWavetype:
                got = [1]
            if [int(v) for v in vals] != got:
                ctx.violation(key, f'periodic_function({wave!r}): impl {got} model {vals}', replay, kind='obligation')
            continue
        h = pf.fourier_series(instance(pf, wave, prm))
        if kind == 'ap':
            if len(vals) != 2 * len(NS_CORR):
                ctx.violation(key, f'model returned no harmonics for {wave}', replay, kind='obligation')
                continue
            for k, n in enumerate(NS_CORR):
                a, p = float(h.amplitude(n)), float(h.phase(n))
                if not close(a, float(vals[2 * k]), prm[1]) or not close(p, float(vals[2 * k + 1]), n * prm[2]):
                    ctx.violation(key, f'{wave} n={n}: impl amplitude/phase {a}/{p} model {float(vals[2 * k])}/'
                                  f'{float(vals[2 * k + 1])}', dict(replay, n=n), kind='obligation')
                    break
        elif kind == 'abc':
            for k, n in enumerate(NS_ABC):
                c = complex(h.c(n))
                got = [float(h.a(n)), float(h.b(n)), c.real, c.imag]
                exp = [float(v) for v in vals[4 * k:4 * k + 4]]
                if len(exp) != 4 or not all(close(g, e, prm[1]) for g, e in zip(got, exp)):
                    ctx.violation(key, f'{wave} n={n}: impl a,b,c {got} model {exp}', dict(replay, n=n), kind='obligation')
                    break
        else:
            f = instance(pf, wave, prm).time_function
            got = [float(v) for v in np.atleast_1d(f(np.array(ts, dtype=float)))]
            exp = [float(v) for v in vals]
            scale = abs(prm[1]) + abs(prm[3])
            if len(exp) != len(got) or not all(abs(g - e) <= 1e-9 * max(1.0, scale) for g, e in zip(got, exp)):
                ctx.violation(key, f'{wave} time function at {ts}: impl {got} model {exp}', dict(replay, ts=ts),
                              kind='obligation')


# ------------------------------------------------------------------ numerical search on the implementation
_GL = np.polynomial.legendre.leggauss(48)


def integrate(f, a, b, pieces=16):
    x, w = _GL
    tot = 0.0
    edges = np.linspace(a, b, pieces + 1)
    for lo, hi in zip(edges[:-1], edges[1:]):
        t = 0.5 * (hi - lo) * x + 0.5 * (hi + lo)
        tot += 0.5 * (hi - lo) * float(np.dot(w, f(t)))
    return tot


def breakpoints(prm):
    T, ph = prm[0], prm[2]
    t0 = ph / 2 / math.pi * T
    pts = {0.0, T}
    for base in (0.0, T / 2):
        for k in range(-3, 4):
            t = base - t0 + k * T
            # reduce into [0, T]
            t = t - math.floor(t / T) * T
            pts.add(t)
    return sorted(pts)


def int_period(g, prm):
    bp = breakpoints(prm)
    return sum(integrate(g, a, b) for a, b in zip(bp[:-1], bp[1:]) if b - a > 0)


def search(ctx, pf, cases):
    nmax = 8 if ctx.tier == 'quick' else 24
    for wave, prm in cases:
        T = prm[0]
        obj = instance(pf, wave, prm)
        f = obj.time_function
        h = pf.fourier_series(obj)
        w0 = 2 * math.pi / T
        scale = (abs(prm[1]) + abs(prm[3])) * T
        ctx.evaluations += 1
        ctx.count('search:' + wave)
        if prm[1] != 0:
            ctx.nontriv({'wave': wave, 'params': prm})
        fv = lambda t: np.asarray(f(t), dtype=float) * np.ones_like(t)
        # the time axis is data: integer-typed instants (np.arange) must give the values of the same instants as binary64
        try:
            ti = np.arange(-3, 5)
            gi = np.asarray(f(ti), dtype=float) * np.ones(len(ti))
            gf = np.asarray(f(ti.astype(float)), dtype=float) * np.ones(len(ti))
            ctx.count('time-function:integer-typed-instants')
            if gi.shape != gf.shape or np.max(np.abs(gi - gf)) > 1e-12 * max(1.0, abs(prm[1]) + abs(prm[3])):
                ctx.violation('C08:time-function-depends-on-the-dtype-of-t', f'{wave} {prm}: values at the integer-typed instants {ti.tolist()} '
                              f'{gi.tolist()} differ from the values at the same instants as floats {gf.tolist()}',
                              {'wave': wave, 'params': prm, 'ts': ti.tolist()})
        except Exception as e:  # noqa: BLE001
            ctx.violation(f'C08:time-function-raises-{type(e).__name__}', f'{wave} on an integer-typed time array: {str(e)[:100]}',
                          {'wave': wave, 'params': prm})
        # the waveform has the stated period on the WHOLE time axis (the expansion is a statement about every t, the coefficient integrals
        # below only look at one period): instants some periods back and forth, taken midway between breakpoints
        bp = breakpoints(prm)
        mids = np.array([(a + b) / 2 for a, b in zip(bp[:-1], bp[1:]) if b - a > 1e-3 * T])
        if len(mids):
            ctx.count('time-function:periodicity over negative and later periods')
            ref = fv(mids)
            for k in (-3, -1, 2, 7):
                got = fv(mids + k * T)
                if np.max(np.abs(got - ref)) > 1e-9 * max(abs(prm[1]) + abs(prm[3]), 1e-300):
                    j = int(np.argmax(np.abs(got - ref)))
                    ctx.violation('C08:time-function-not-periodic', f'{wave} {prm}: f({mids[j] + k * T!r}) = {got[j]} but f({mids[j]!r}) = {ref[j]} '
                                  f'({k} periods apart)', {'wave': wave, 'params': prm, 'kind': 'search'})
                    break
        m = int_period(fv, prm)
        bad = None
        if abs(m - T * h.amplitude(0)) > 1e-9 * max(scale, 1e-300):
            bad = (0, 'mean', m, T * h.amplitude(0))
        for n in range(1, nmax + 1):
            if bad:
                break
            ic = int_period(lambda t: fv(t) * np.cos(n * w0 * t), prm)
            is_ = int_period(lambda t: fv(t) * np.sin(n * w0 * t), prm)
            ec = T / 2 * h.amplitude(n) * math.cos(h.phase(n))
            es = -T / 2 * h.amplitude(n) * math.sin(h.phase(n))
            if abs(ic - ec) > 1e-8 * max(scale, 1e-300):
                bad = (n, 'cos', ic, ec)
            elif abs(is_ - es) > 1e-8 * max(scale, 1e-300):
                bad = (n, 'sin', is_, es)
        if bad:
            ctx.violation('C08:coefficient-not-fourier-integral',
                          f'{wave}{prm}: n={bad[0]} {bad[1]} integral {bad[2]} but coefficients give {bad[3]}',
                          {'wave': wave, 'params': prm, 'kind': 'search'})
            continue
        # Parseval partial sums (stated, not proved): 0 <= ms - partial(N) <= tail bound A^2/N
        ms = int_period(lambda t: fv(t) ** 2, prm) / T
        N = 200
        part = h.amplitude(0) ** 2 + sum(h.amplitude(n) ** 2 / 2 for n in range(1, N + 1))
        tail = prm[1] ** 2 / N
        eps = 1e-9 * max(1.0, ms)
        if not (-eps <= ms - part <= tail + eps):
            ctx.violation('C08:parseval', f'{wave}{prm}: mean square {ms} vs partial sum {part} (tail bound {tail})',
                          {'wave': wave, 'params': prm, 'kind': 'search'})
        ctx.sample({'wave': wave, 'params': prm, 'mean_square': ms, 'parseval_partial_200': part}, cap=4)


def all_cases(ctx):
    return [(w, p) for p in gen_params(ctx) for w in WAVES]


def prologue(ctx):
    """standard_prologue, minus an artefact: common.check_property_file collects every `<Word>:` line of the coqc output
    as an axiom name, so the header line `Axioms:` of Print Assumptions (and `Warning:`) is reported as a foreign axiom
    as soon as a theorem legitimately depends on the whitelisted classical-reals axioms.  Only these two pseudo-names are
    discounted; any real non-whitelisted axiom still fails."""
    ok = standard_prologue(ctx)
    pr = ctx.proof or {}
    if pr.get('foreign_axioms') and set(pr['foreign_axioms']) <= {'Axioms', 'Warning'} and 'Error' not in pr.get('log', ''):
        pr['axioms'] = [a for a in pr['axioms'] if a not in ('Axioms', 'Warning')]
        pr['foreign_axioms'] = []
        ctx.violations = [v for v in ctx.violations if v['key'] != 'proof:' + ctx.prop]
    return ok


def run(ctx):
    ctx.trusted = TRUSTED
    ctx.assumptions = ['float arithmetic of the implementation agrees with exact arithmetic to 1e-11 relative',
                       'np.mod / float % = x - T floor(x/T)']
    ctx.partial = ['on the implementation side float %, np.vectorize and the coefficient methods are compared numerically (quadrature, partial sums up to '
                   'N = 200 against the quadrature of f^2); on the model side the whole statement incl. mean-square convergence / Parseval is proved '
                   '(C08e: Basel and zeta(4) in the development)']
    if prologue(ctx):
        from CircuitCalculator.SignalProcessing import periodic_functions as pf
        cases = all_cases(ctx)
        try:
            correspondence(ctx, pf, cases)
        except RuntimeError as e:
            ctx.violation('correspondence:C08-model-eval', str(e)[:400], {'obligation': 'Run/C08Eval.v'}, kind='obligation')
        search(ctx, pf, cases)
    return RULE


def replay(ctx, obj):
    ctx.trusted = TRUSTED
    if prologue(ctx):
        from CircuitCalculator.SignalProcessing import periodic_functions as pf
        c = obj['case']
        if c.get('params') is None:
            correspondence(ctx, pf, [])
        else:
            case = [(c['wave'], tuple(c['params']))]
            correspondence(ctx, pf, case)
            search(ctx, pf, case)
    return RULE
