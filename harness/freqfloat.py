"""C09: bit-exact correspondence of `frequency_components` with the generic model function of Model/Circuit.v instantiated at
IEEE binary64 (Model/FreqFloat.v, Coq primitive floats, evaluated with vm_compute inside coqc).  Unlike the exact-rational run
(fn 9) nothing is skipped near ties: np.floor(w_max/w) of the ROUNDED quotient and the ROUNDED products w*n are the model's."""
import ast
import math
import os
import re
import subprocess
import tempfile

import common

W0S = [0.1, 0.7, 2 * math.pi * 50, 1 / 3, 1e-3 * math.pi, 0.3, 100 * math.pi, 1.1, 5e-2]


def lit(x):
    h = float(x).hex()
    return f'({h})%float' if h.startswith('-') else f'{h}%float'


def coq_case(items, wmax):
    cs = '; '.join(f'({"true" if per else "false"}, {"Some " + lit(w) if w is not None else "None"})' for per, w in items)
    return f'([{cs}], {lit(wmax)})'


def run_coq(cases):
    """cases: list of (items, wmax) -> list of float lists (None where the model reports an error)"""
    if not cases:
        return []
    body = ('From Coq Require Import List PrimFloat.\nFrom CC Require Import Model.FreqFloat.\nImport ListNotations.\n'
            'Definition cases : list (list (bool * option float) * float) := [\n  '
            + ';\n  '.join(coq_case(i, w) for i, w in cases) + '].\n'
            'Eval vm_compute in map (fun c => freq_float (fst c) (snd c)) cases.\n')
    work = os.path.join(common.VERIF, 'work')
    os.makedirs(work, exist_ok=True)
    with tempfile.NamedTemporaryFile('w', suffix='.v', prefix='freqcases_', dir=work, delete=False) as f:
        f.write(body)
        path = f.name
    try:
        out = subprocess.run(['timeout', '600', 'coqc', '-Q', common.COQ, 'CC', path], capture_output=True, text=True)
    finally:
        for ext in ('.v', '.vo', '.glob', '.vok', '.vos'):
            try:
                os.remove(path[:-2] + ext)
            except OSError:
                pass
        try:
            os.remove(os.path.join(os.path.dirname(path), '.' + os.path.basename(path)[:-2] + '.aux'))
        except OSError:
            pass
    if out.returncode != 0:
        raise RuntimeError('coqc failed on the float cases: ' + (out.stderr or out.stdout)[-400:])
    m = re.search(r'=\s*(\[.*\])\s*:\s*list \(list float\)', out.stdout, re.S)
    if not m:
        raise RuntimeError('cannot find the result in coqc output: ' + out.stdout[-300:])
    txt = m.group(1).replace('%float', '').replace(';', ',')
    txt = re.sub(r'neg_infinity', '-1e999', txt)
    txt = re.sub(r'\binfinity\b', '1e999', txt)
    txt = re.sub(r'\bnan\b', 'None', txt)
    vals = ast.literal_eval(txt)
    return [None if (len(v) == 1 and v[0] == float('-inf')) else [float(x) for x in v] for v in vals]


def items_of(comps):
    """what frequency_components reads from each live component: periodic?, value['w'] (None: no such key)"""
    out = []
    for c in comps:
        w = c.value.get('w') if hasattr(c.value, 'get') else None
        out.append((c.type in ('periodic_voltage_source', 'periodic_current_source'), None if w is None else float(w)))
    return out


def near_tie_circuits(rng, n):
    """one periodic source (fundamental not exactly representable) + optionally a sinusoidal source near a harmonic; w_max a rounded
    multiple of the fundamental or one of its binary64 neighbours"""
    from CircuitCalculator.Circuit import components as ccp
    from CircuitCalculator.Circuit.circuit import Circuit
    out = []
    for _ in range(n):
        w0 = rng.choice(W0S)
        k = rng.randint(0, 40)
        wmax = k * w0
        r = rng.random()
        if r < 0.25:
            wmax = math.nextafter(wmax, math.inf)
        elif r < 0.5:
            wmax = math.nextafter(wmax, -math.inf)
        elif r < 0.6:
            wmax = rng.uniform(0, 40) * w0
        comps = [ccp.periodic_voltage_source(id='Vp', nodes=('1', '0'), wavetype=rng.choice(['rect', 'tri', 'saw']), V=1.0, w=w0, phi=0.0),
                 ccp.resistor(id='R', nodes=('1', '0'), R=10.0)]
        if rng.random() < 0.5:
            j = rng.randint(1, 6)
            comps.append(ccp.ac_current_source(id='Is', nodes=('0', '1'), I=0.5, w=rng.choice([j * w0, math.nextafter(j * w0, math.inf), float(f'{j * w0:.6g}')]), phi=0.0))
        if rng.random() < 0.3:
            w2 = rng.choice(W0S)
            if wmax / w2 < 300:
                comps.append(ccp.periodic_current_source(id='Ip', nodes=('0', '1'), wavetype='rect', I=0.1, w=w2, phi=0.0))
        comps.append(ccp.ground(nodes=('0',)))
        rng.shuffle(comps)
        out.append((Circuit(comps), comps, wmax))
    return out


def correspond(ctx, jobs, rng, n_near):
    """jobs: list of (live components, w_max, implementation list or None, replay object)"""
    from CircuitCalculator.Circuit.circuit import frequency_components
    for circuit, comps, wmax in near_tie_circuits(rng, n_near):
        try:
            ws = [float(x) for x in frequency_components(circuit, wmax)]
        except Exception as e:  # noqa: BLE001
            ws = None
            ctx.count(f'float-stream:impl-raises-{type(e).__name__}')
        jobs.append((comps, wmax, ws, {'near_tie': [[c.type, c.id, {k: v for k, v in c.value.items()}] for c in comps], 'w_max': wmax,
                                       'w_max_hex': float(wmax).hex()}))
    cases, keep = [], []
    for comps, wmax, ws, rep in jobs:
        items = items_of(comps)
        if not math.isfinite(wmax) or any(w is not None and (not math.isfinite(w) or w == 0) and per for per, w in items) or \
                any(w is not None and not math.isfinite(w) for _, w in items):
            ctx.count('float-stream:non-finite-or-zero-fundamental(not compared)')
            continue
        if any(per and abs(wmax / w) > 5000 for per, w in items if w is not None):
            ctx.count('float-stream:more-than-5000-harmonics(not compared)')
            continue
        cases.append((items, wmax))
        keep.append((ws, rep, wmax))
    try:
        res = run_coq(cases)
    except RuntimeError as e:
        ctx.violation('correspondence:C09-float-model-run', str(e)[:300], {'cases': len(cases)}, kind='obligation')
        return
    for (ws, rep, wmax), m in zip(keep, res):
        ctx.count('float-stream:lists-compared-bit-for-bit')
        if ws is None or m is None:
            if (ws is None) != (m is None):
                ctx.violation('correspondence:C09-frequency_components-binary64', f'implementation {ws}, binary64 model {m}', rep, kind='obligation')
            continue
        if len(ws) != len(m) or any(a != b for a, b in zip(ws, m)):
            diff = [(a.hex(), b.hex()) for a, b in zip(ws, m) if a != b][:3]
            ctx.disagreements.append(rep)
            ctx.violation('correspondence:C09-frequency_components-binary64',
                          f'w_max={wmax!r}: implementation lists {len(ws)} frequencies, the binary64 instance of the model {len(m)}; first '
                          f'differences {diff}; impl tail {ws[-3:]}, model tail {m[-3:]}', rep, kind='obligation')
