"""C12 — transient simulation solves the circuit's differential equations."""
import random

import numpy as np

import c10
import circgen
import ssrun
from common import standard_prologue
from exact import spec_solution

RULE = ('cases = (circuit, grid, waveforms): the non-degenerate RLC + ideal-source circuits of C10 (stable ones, decided from the '
        'eigenvalues), uniform grids with step = 1/50 of the fastest time constant starting at 0 or at an offset, piecewise-linear '
        'source waveforms with breakpoints on the grid (one-sample ramp "steps", ramps, triangles, different per source).  Checked on '
        'TransientSolution: rest at the first sample (capacitor voltages, inductor currents = 0); KCL at every node at every sample; '
        'v = phi1 - phi2, Ohm\'s law, i_C = C dv/dt and v_L = L di/dt (central differences, O(h^2) tolerance); agreement of all '
        'capacitor voltages / inductor currents with an independent high-accuracy integration (scipy solve_ivp, rtol 1e-10) of '
        'x\' = A x + B u with u_k = input[sources[k]]; p = v*i; settling to the DCSolution for the final constant inputs.  '
        'distinct = distinct (circuit, waveform kinds); non-trivial = >= 1 state and >= 1 non-constant input')

TRUSTED = c10.TRUSTED + ['scipy.signal.lsim (first-order hold) is exercised, not modelled; scipy.integrate.solve_ivp as independent integrator']


def waveform(kind, t0, t1, amp):
    """piecewise-linear functions of an array t with breakpoints t0 < t1 (both on the grid)"""
    if kind == 'step':      # one-sample ramp is created by the caller choosing t1 = t0 + h
        return lambda t: amp * np.clip((t - t0) / (t1 - t0), 0.0, 1.0)
    if kind == 'ramp':
        return lambda t: amp * np.clip((t - t0) / (t1 - t0), 0.0, 1.0)
    if kind == 'tri':
        return lambda t: amp * np.clip(np.minimum((t - t0) / (t1 - t0), 2.0 - (t - t0) / (t1 - t0)), 0.0, 1.0)
    if kind == 'const':
        return lambda t: amp * np.ones_like(t)
    raise ValueError(kind)


def check_case(case, wf):
    """wf: dict source id -> (kind, k0, k1, amp) with grid indices; plus '_offset' (grid start index shift)"""
    bad = []
    try:
        m = ssrun.impl_model(case)
    except Exception as e:  # noqa: BLE001
        return [(f'C12:raises-{type(e).__name__}', str(e)[:150])], None
    A, B = m['A'], m['B']
    n = A.shape[0]
    lam = np.linalg.eigvals(A) if n else np.array([])
    if n and lam.real.max() > -1e-9:
        return [], None          # lossless / marginal circuits do not settle; excluded from this check (see C11)
    rates = np.abs(lam.real) if n else np.array([1.0])
    fast = max(np.abs(lam).max(), 1e-9) if n else 1.0
    slow = rates.min() if n else 1.0
    h = 0.02 / fast
    N = int(min(max(14.0 / slow / h, 200), 6000))
    off = wf.get('_offset', 0) * h
    t = off + np.arange(N) * h
    inputs, final = {}, {}
    for s in m['sources']:
        kind, k0, k1, amp = wf[s]
        k0 = min(k0, N // 6)
        k1 = min(max(k1, k0 + 1), N // 4)
        inputs[s] = waveform(kind, t[k0], t[k1], amp)
        final[s] = float(inputs[s](np.array([t[-1]]))[0])
    from CircuitCalculator.Circuit.solution import TransientSolution, DCSolution
    try:
        sol = TransientSolution(m['circuit'], tin=t, input=inputs)
    except Exception as e:  # noqa: BLE001
        return [(f'C12:raises-{type(e).__name__}', str(e)[:150])], None
    ids, nodes = m['ids'], m['nodes']
    V = {i: np.asarray(sol.get_voltage(i)[1], dtype=float) for i in ids}
    I = {i: np.asarray(sol.get_current(i)[1], dtype=float) for i in ids}
    P = {i: np.asarray(sol.get_power(i)[1], dtype=float) for i in ids}
    PH = {x: np.asarray(sol.get_potential(x)[1], dtype=float) for x in nodes}
    tout = np.asarray(sol.get_voltage(ids[0])[0], dtype=float)
    if tout.shape != t.shape or np.max(np.abs(tout - t)) > 1e-12 * max(1.0, abs(t[-1])):
        bad.append(('C12:time-axis', 'reported time stamps differ from the requested grid'))
        return bad, m
    # physical floors: what the inputs could drive through the circuit's own resistances (two equal and opposite current sources give an
    # exactly zero response: rounding noise must be compared with the scale of the drive, not with itself)
    rs = [c['params']['R'] for c in case['components'] if c['kind'] == 'resistor'] or [1.0]
    kinds = {c['id']: c['kind'] for c in case['components']}
    drive_v = max([abs(wf[s][3]) * (1.0 if kinds[s] == 'dc_voltage_source' else max(rs)) for s in m['sources']] + [0.0])
    drive_i = max([abs(wf[s][3]) * (1.0 if kinds[s] == 'dc_current_source' else 1.0 / min(rs)) for s in m['sources']] + [0.0])
    sv = max([np.max(np.abs(v)) for v in V.values()] + [1e-12, 1e-6 * drive_v])
    rmin = min([c['params']['R'] for c in case['components'] if c['kind'] == 'resistor'] + [1.0])
    si = max([np.max(np.abs(v)) for v in I.values()] + [1e-12, sv / max(rmin, 1e-12) * 1e-3, 1e-6 * drive_i])     # a current scale even when nothing flows
    comps = {c['id']: c for c in case['components']}
    # rest
    for i in m['c_ids']:
        if abs(V[i][0]) > 1e-9 * sv:
            bad.append(('C12:not-at-rest', f'capacitor {i!r} voltage {V[i][0]} at the first sample'))
    for i in m['l_ids']:
        if abs(I[i][0]) > 1e-9 * si:
            bad.append(('C12:not-at-rest', f'inductor {i!r} current {I[i][0]} at the first sample'))
    if bad:
        return bad, m
    # KCL, voltage definition, Ohm
    for x in nodes:
        tot = np.zeros(N)
        for i in ids:
            c = comps[i]
            if c['nodes'][0] == x:
                tot += I[i]
            if c['nodes'][1] == x:
                tot -= I[i]
        if np.max(np.abs(tot)) > 1e-7 * si * max(4, len(ids)):
            bad.append(('C12:kcl', f'KCL residual {np.max(np.abs(tot))} at node {x!r} (current scale {si})'))
            return bad, m
    for i in ids:
        c = comps[i]
        if np.max(np.abs(V[i] - (PH[c['nodes'][0]] - PH[c['nodes'][1]]))) > 1e-8 * sv:
            bad.append(('C12:voltage-not-potential-difference', f'{i!r}'))
            return bad, m
        if c['kind'] == 'resistor' and np.max(np.abs(V[i] - c['params']['R'] * I[i])) > 1e-7 * max(sv, si * c['params']['R']):
            bad.append(('C12:ohm', f'{i!r}'))
            return bad, m
        if np.max(np.abs(P[i] - V[i] * I[i])) > 1e-9 * max(1e-300, np.max(np.abs(P[i]))):
            bad.append(('C12:power-not-v-times-i', f'{i!r}'))
            return bad, m
        if c['kind'] in ('dc_voltage_source',) and np.max(np.abs(V[i] - inputs[i](t))) > 1e-8 * sv:
            bad.append(('C12:source-waveform-not-applied', f'voltage of source {i!r} is not its input waveform'))
            return bad, m
        if c['kind'] in ('dc_current_source',) and np.max(np.abs(I[i] - inputs[i](t))) > 1e-8 * si:
            bad.append(('C12:source-waveform-not-applied', f'current of source {i!r} is not its input waveform'))
            return bad, m
    # derivative laws (central differences on interior samples away from the breakpoints)
    def ddt(y):
        return (y[2:] - y[:-2]) / (2 * h)
    for i in m['c_ids']:
        d = comps[i]['params']['C'] * ddt(V[i])
        err = np.abs(I[i][1:-1] - d)
        # exclude the samples adjacent to waveform breakpoints (input derivative jumps there)
        noise = comps[i]['params']['C'] * 1e-14 * max(sv, np.max(np.abs(V[i]))) / h       # cancellation in the finite difference itself
        if np.sort(err)[int(0.97 * len(err))] > 0.02 * max(np.max(np.abs(I[i])), 1e-9 * si) + noise:
            bad.append(('C12:capacitor-law', f'i_C of {i!r} is not C dv/dt (97th percentile error {np.sort(err)[int(0.97 * len(err))]}, max |i| {np.max(np.abs(I[i]))})'))
            return bad, m
    for i in m['l_ids']:
        d = comps[i]['params']['L'] * ddt(I[i])
        err = np.abs(V[i][1:-1] - d)
        noise = comps[i]['params']['L'] * 1e-14 * max(si, np.max(np.abs(I[i]))) / h
        if np.sort(err)[int(0.97 * len(err))] > 0.02 * max(np.max(np.abs(V[i])), 1e-9 * sv) + noise:
            bad.append(('C12:inductor-law', f'v_L of {i!r} is not L di/dt'))
            return bad, m
    # independent integration
    if n:
        from scipy.integrate import solve_ivp

        def u(tt):
            return np.array([float(inputs[s](np.array([tt]))[0]) for s in m['sources']])
        bps = sorted({t[min(wf[s][1], N // 6)] for s in m['sources']} | {t[min(max(wf[s][2], min(wf[s][1], N // 6) + 1), N // 4)] for s in m['sources']})
        # the integrator must not step over a short pulse: bound the step by the shortest waveform feature
        feat = min([(t[-1] - t[0]) / 50] + [(bps[k + 1] - bps[k]) / 3 for k in range(len(bps) - 1) if bps[k + 1] > bps[k]])
        r = solve_ivp(lambda tt, x: A @ x + B @ u(tt), (t[0], t[-1]), np.zeros(n), t_eval=t, method='Radau', rtol=1e-9, atol=1e-12,
                      jac=lambda tt, x: A, max_step=feat, first_step=h / 10)
        if r.success:
            X = r.y
            for k, i in enumerate(m['c_ids']):
                if np.max(np.abs(X[k] - V[i])) > 2e-5 * max(np.max(np.abs(X[k])), 1e-3 * sv) + 2e-11:      # + 20 x the reference integrator's own atol
                    bad.append(('C12:not-the-exact-response', f'capacitor {i!r}: max deviation {np.max(np.abs(X[k] - V[i]))} from the independent '
                                f'integration (scale {np.max(np.abs(X[k]))})'))
                    return bad, m
            for k, i in enumerate(m['l_ids']):
                kk = len(m['c_ids']) + k
                if np.max(np.abs(X[kk] - I[i])) > 2e-5 * max(np.max(np.abs(X[kk])), 1e-3 * si) + 2e-11:
                    bad.append(('C12:not-the-exact-response', f'inductor {i!r}: max deviation {np.max(np.abs(X[kk] - I[i]))}'))
                    return bad, m
    # settling to the DC solution for the final constant inputs
    if (t[-1] - t[N // 4]) * slow > 12:        # e^-12 = 6e-6 of the transient amplitude (which may overshoot the final scale) is left
        ex = spec_solution(ssrun.phasor_network(case, 0, amplitudes=final))
        if ex is not None:
            for x in nodes:
                if abs(PH[x][-1] - complex(ex['phi'][x]).real) > 5e-3 * max(sv, 1e-9):
                    bad.append(('C12:does-not-settle-to-dc', f'potential {x!r}: final {PH[x][-1]} vs DC {complex(ex["phi"][x]).real}'))
                    return bad, m
            for i in ids:
                if abs(I[i][-1] - complex(ex['i'][i]).real) > 5e-3 * max(si, 1e-9):
                    bad.append(('C12:does-not-settle-to-dc', f'current {i!r}: final {I[i][-1]} vs DC {complex(ex["i"][i]).real}'))
                    return bad, m
    return bad, m


def gen_wf(rng, case):
    wf = {}
    for s in ssrun.sources_of(case):
        kind = rng.choice(['step', 'ramp', 'tri', 'ramp', 'const'])
        k0 = rng.randint(1, 40)
        k1 = k0 + 1 if kind == 'step' else k0 + rng.randint(5, 200)
        wf[s] = (kind, k0, k1, rng.choice([1.0, -2.0, 0.5, 10.0]))
    wf['_offset'] = rng.choice([0, 0, 0, 7, 150])
    return wf


def examine(ctx, jobs):
    for origin, case, wf in jobs:
        ctx.evaluations += 1
        if not ssrun.nondegenerate(case):
            ctx.count('degenerate(excluded)')
            continue
        bad, m = check_case(case, wf)
        if m is None and not bad:
            ctx.count('marginally-stable(excluded)')
            continue
        for s, v in wf.items():
            if s != '_offset':
                ctx.count('waveform:' + v[0])
        ctx.count('grid-offset:' + ('0' if wf.get('_offset', 0) == 0 else 'nonzero'))
        for key, what in bad:
            small = ssrun.shrink(case, lambda cc, key=key: ssrun.nondegenerate(cc) and set(ssrun.sources_of(cc)) == set(ssrun.sources_of(case))
                                 and any(k == key for k, _ in check_case(cc, wf)[0]))
            ctx.violation(key, what, {'circuit': small, 'waveforms': wf})
        nst = sum(1 for c in case['components'] if c['kind'] in ('capacitor', 'inductance'))
        if nst >= 1 and any(v[0] != 'const' for s, v in wf.items() if s != '_offset'):
            ctx.nontriv([[(c['kind'], c['id'], c['nodes'], sorted(c['params'].items())) for c in case['components']],
                         sorted((s, v[0]) for s, v in wf.items() if s != '_offset')])
        ctx.sample({'circuit': case, 'waveforms': wf}, cap=3)


def typed_grid_cases(ctx):
    """the time grid is data: an integer-typed grid (np.arange(n)) or a float32 grid must give the response of the same instants given as
    binary64 — inputs are sampled on the grid and must not inherit its dtype"""
    from CircuitCalculator.Circuit.solution import TransientSolution
    for name, case, src in (
            ('RC', {'components': [{'kind': 'dc_voltage_source', 'id': 'Vs', 'nodes': ['1', '0'], 'params': {'V': 1.0, 'R': 0.0}},
                                   {'kind': 'resistor', 'id': 'R1', 'nodes': ['1', '2'], 'params': {'R': 10.0}},
                                   {'kind': 'capacitor', 'id': 'C1', 'nodes': ['2', '0'], 'params': {'C': 1.0}},
                                   {'kind': 'ground', 'id': 'gnd', 'nodes': ['0'], 'params': {}}]}, 'Vs'),
            ('RL', {'components': [{'kind': 'dc_current_source', 'id': 'Is', 'nodes': ['0', '1'], 'params': {'I': 1.0, 'G': 0.0}},
                                   {'kind': 'resistor', 'id': 'R1', 'nodes': ['1', '0'], 'params': {'R': 2.0}},
                                   {'kind': 'inductance', 'id': 'L1', 'nodes': ['1', '2'], 'params': {'L': 8.0}},
                                   {'kind': 'resistor', 'id': 'R2', 'nodes': ['2', '0'], 'params': {'R': 2.0}},
                                   {'kind': 'ground', 'id': 'gnd', 'nodes': ['0'], 'params': {}}]}, 'Is')):
        circuit, _ = __import__('circrun').build_impl(case)
        ids = [c['id'] for c in case['components'] if c['kind'] != 'ground']

        def wave(t):
            return 0.75 * np.minimum(np.asarray(t, dtype=float) / 5.0, 1.0)
        ref_t = np.arange(0, 160, dtype=float)
        for tag, grid in (('int64', np.arange(0, 160)), ('int32', np.arange(0, 160, dtype=np.int32)), ('float32', np.arange(0, 160, dtype=np.float32))):
            ctx.evaluations += 1
            ctx.count('typed-grid:' + tag)
            rep = {'circuit': case, 'grid_dtype': tag, 'waveform': '0.75*min(t/5, 1)'}
            try:
                a = TransientSolution(circuit, tin=ref_t, input={src: wave})
                b = TransientSolution(circuit, tin=grid, input={src: wave})
                for i in ids:
                    va, vb = np.asarray(a.get_voltage(i)[1], dtype=float), np.asarray(b.get_voltage(i)[1], dtype=float)
                    ia, ib = np.asarray(a.get_current(i)[1], dtype=float), np.asarray(b.get_current(i)[1], dtype=float)
                    tol = 1e-5 if tag == 'float32' else 1e-9
                    if va.shape != vb.shape or np.max(np.abs(va - vb)) > tol * max(np.max(np.abs(va)), 1e-6) or \
                            np.max(np.abs(ia - ib)) > tol * max(np.max(np.abs(ia)), 1e-6):
                        ctx.violation('C12:response-depends-on-the-dtype-of-the-time-grid', f'{name} circuit, element {i!r}: the response on the {tag} grid '
                                      f'0..159 differs from the response at the same instants given as binary64 (final voltage {vb[-1]} vs {va[-1]}): the '
                                      f'input samples inherit the grid dtype', rep)
                        break
            except Exception as e:  # noqa: BLE001
                ctx.violation(f'C12:raises-{type(e).__name__}', f'{tag} time grid: {str(e)[:120]}', rep)


def run(ctx):
    ctx.trusted = TRUSTED
    ctx.partial = ['accuracy of scipy.signal.lsim itself is runtime behaviour outside the model (compared against an independent '
                   'integrator); steady state for periodic inputs is exercised in the thorough tier only']
    if standard_prologue(ctx):
        rng = random.Random(ctx.seed + 12)
        cases = c10.gen(ctx, 40, 1200, 12, min_states=1)
        examine(ctx, [(o, c, gen_wf(rng, c)) for o, c in cases])
        typed_grid_cases(ctx)
    return RULE


def replay(ctx, obj):
    ctx.trusted = TRUSTED
    if standard_prologue(ctx):
        c = obj['case']
        wf = {k: (tuple(v) if isinstance(v, list) else v) for k, v in c['waveforms'].items()}
        examine(ctx, [('replay', c['circuit'], wf)])
    return RULE
