"""C15 correspondence: SimpleCircuit/dump_load.py (+ the constructors of Elements.py, CircuitComponentTranslators.py) against the
extracted Coq model Model/SaveLoad.v (runner fn 15, Model/RunSaveLoad.v).

Every program is built into a LIVE schemdraw drawing (drawgen.build).  The model receives the CONSTRUCTOR CALLS drawgen.build makes
(class, keyword arguments in call order) and, as terminal points, the live absanchors['start'/'end'] of the placed elements (exact
rationals of the floats); math.pi is handed over as the exact rational of the float.  Compared:
  (1) live symbol vs [construct]: class, _name, .name, is_reverse, the private attributes (_R, _V, _w, _phi, _deg, _sin, ...), _userparams
  (2) json.loads(serialize(d, 'json')) vs [save d]: the key order of the document, circuit.components (type, id, value dictionary in
      key order, node names = the parser's names of the model's terminal points), and of every simple_circuit entry the keys type,
      name, reverse, values._userparams, values.absanchors.start/end (a dictified Point {'type': 'Point', 'values': [x, y]} is the
      model's [x, y])
  (3) deserialize(text, 'json') vs [load (save d)]: the same observables as (1) on every reloaded element, and its absanchors
  (4) circuit_translator before / after vs [translate] of every symbol before / after (type, id, value dictionary, node names)
  or the exception class vs the model's error code.
Numbers are compared as exact rationals; a value stored under the key 'phi' / '_phi' may differ by 1e-15 relative (the model computes
phi - pi/2 and phi*pi/180 in exact arithmetic).  _userparams: the entries schemdraw's placement methods add after construction
(PLACEMENT_KEYS: endpts, drop, at, theta, ...) are third-party drawing state outside the model and are removed from the implementation's
dictionary before the (ordered) comparison; every other key is compared."""
import copy
import json
import os
from fractions import Fraction

import drawgen
from common import Toks, run_model, ERR_NAMES, t_q
from ldmodel import enc, dec

FN = 15
CLASS_IDS = {'Resistor': 0, 'Conductance': 1, 'Impedance': 2, 'Admittance': 3, 'Capacitor': 4, 'Inductance': 5, 'VoltageSource': 6,
             'CurrentSource': 7, 'ComplexVoltageSource': 8, 'ComplexCurrentSource': 9, 'ACVoltageSource': 10, 'ACCurrentSource': 11,
             'RectVoltageSource': 12, 'RectCurrentSource': 13, 'Ground': 14, 'Line': 15, 'Element': 16}
CLASS_NAMES = {v: k for k, v in CLASS_IDS.items()}
PRIVATE = ['_R', '_G', '_C', '_L', '_Z', '_Y', '_V', '_I', '_w', '_phi', '_deg', '_sin']
PLACEMENT_KEYS = {'endpts', 'drop', 'at', 'theta', 'd', 'l', 'to', 'tox', 'toy', 'anchor', 'zoom', 'flip'}
PI_KEYS = {'phi', '_phi'}
REL = 1e-15
STATS = {}
# exception class of the implementation -> name of the model's error code (common.ERR_NAMES)
EXC = {'UnknownTranslator': 'UnknownCircuitComponent'}


def class_table():
    import CircuitCalculator.SimpleCircuit.Elements as elm
    return {getattr(elm, n): c for n, c in CLASS_IDS.items()}


def call_kwargs(s):
    """the keyword arguments drawgen.build hands to the class, in call order"""
    kw = dict(s['kw'])
    for k in ('Z', 'V', 'I'):
        if isinstance(kw.get(k), list):
            kw[k] = complex(*kw[k])
    if s['cls'] == 'Line':
        return {}
    if s['cls'] in ('Ground', 'LabelNode', 'Node'):
        return {'name': s['name']}
    if s['cls'].endswith('Source'):
        kw['reverse'] = s['reverse']
    return dict({'name': s['name']}, **kw)


def frac_point(p):
    return (Fraction(float(p[0])), Fraction(float(p[1])))


def tok_case(calls):
    import math
    t = [FN] + t_q(Fraction(math.pi)) + [len(calls)]
    for cid, kw, a, b in calls:
        t += [cid] + enc(kw) + t_q(a[0]) + t_q(a[1]) + t_q(b[0]) + t_q(b[1])
    return t


# ------------------------------------------------------------------ decoding of the model's answer
def decode(toks):
    t = Toks(toks)
    tag = t.z()
    if tag != 0:
        return {'tag': tag}

    def point():
        return (t.q(), t.q())

    def kwargs():
        return t.lst(lambda: (t.label(), dec(t)))

    def cls():
        c = t.z()
        if c == 17:
            return ('other', t.label() if t.z() == 1 else None)
        return c

    def symbol():
        return {'cls': cls(), '_name': t.label(), 'name': t.label(), 'reverse': t.z() == 1, 'attr': kwargs(), 'user': kwargs(),
                'start': point(), 'end': point()}

    def comp():
        return {'type': t.label(), 'id': t.label(), 'nodes': t.lst(point), 'value': kwargs()}

    def opt_comp():
        return comp() if t.z() == 1 else None

    out = {'tag': 0, 'constructed': t.lst(lambda: t.res(symbol))}
    if all(r[0] == 'ok' for r in out['constructed']):
        out['before'] = t.lst(lambda: t.res(opt_comp))
        out['saved'] = t.res(lambda: dec(t))
        if out['saved'][0] == 'ok':
            out['loaded'] = t.res(lambda: (t.lst(symbol), t.lst(lambda: t.res(opt_comp))))
    assert t.done(), 'trailing tokens'
    return out


# ------------------------------------------------------------------ comparison
def diff(impl, mod, path=''):
    """implementation object vs decoded model document -> None or the first difference"""
    key = path.rsplit('.', 1)[-1]
    if impl is None or isinstance(impl, (bool, str)):
        if type(impl) is type(mod) and impl == mod:
            return None
        return f'{path}: implementation {impl!r}, model {show(mod)}'
    if isinstance(impl, (int, float)):
        if not isinstance(mod, Fraction):
            return f'{path}: implementation {impl!r}, model {show(mod)}'
        try:
            x = Fraction(impl)
        except (ValueError, OverflowError):
            return f'{path}: implementation {impl!r} is not finite, model {show(mod)}'
        if x == mod:
            return None
        if key in PI_KEYS and abs(x - mod) <= Fraction(REL) * max(abs(x), abs(mod)):
            STATS['pi-dependent-value-within-1e-15'] = STATS.get('pi-dependent-value-within-1e-15', 0) + 1
            return None
        return f'{path}: implementation {impl!r}, model {show(mod)}'
    if isinstance(impl, complex):
        if isinstance(mod, tuple) and mod[0] == 'cplx' and Fraction(impl.real) == mod[1] and Fraction(impl.imag) == mod[2]:
            return None
        return f'{path}: implementation {impl!r}, model {show(mod)}'
    if isinstance(impl, (list, tuple)):
        if not isinstance(mod, list) or len(mod) != len(impl):
            return f'{path}: implementation {impl!r}, model {show(mod)}'
        for k, (a, b) in enumerate(zip(impl, mod)):
            r = diff(a, b, f'{path}[{k}]')
            if r:
                return r
        return None
    if isinstance(impl, dict):
        if not (isinstance(mod, tuple) and mod[0] == 'dict'):
            return f'{path}: implementation {impl!r}, model {show(mod)}'
        return diff_items(impl, mod[1], path)
    return f'{path}: implementation value of type {type(impl).__name__} has no counterpart in the model ({show(mod)})'


def diff_items(impl, items, path, ordered=True):
    """dict of the implementation vs the model's association list"""
    mk = [k for k, _ in items]
    ik = list(impl.keys())
    if (ik != mk) if ordered else (sorted(ik) != sorted(mk)):
        return f'{path}: keys {ik} (implementation) vs {mk} (model)'
    for k, v in items:
        r = diff(impl[k], v, f'{path}.{k}')
        if r:
            return r
    return None


def show(m):
    if isinstance(m, Fraction):
        return repr(float(m)) if m.denominator & (m.denominator - 1) == 0 else f'{float(m)!r}~'
    if isinstance(m, tuple) and m and m[0] == 'dict':
        return '{' + ', '.join(f'{k!r}: {show(v)}' for k, v in m[1]) + '}'
    if isinstance(m, tuple) and m and m[0] == 'cplx':
        return f'complex({show(m[1])}, {show(m[2])})'
    if isinstance(m, list):
        return '[' + ', '.join(show(x) for x in m) + ']'
    return repr(m)


def modelled_user(u):
    return {k: v for k, v in u.items() if k not in PLACEMENT_KEYS}


def unpoint(x):
    """a dictified Point is the model's [x, y]"""
    if isinstance(x, dict) and x.get('type') == 'Point' and isinstance(x.get('values'), list):
        return x['values']
    return x


def plain(x, sdl):
    """a live _userparams value as a document: complex numbers stay (the model's symbol holds them; only SAVING replaces them by None)"""
    if isinstance(x, complex):
        return x
    if isinstance(x, dict):
        return {k: plain(v, sdl) for k, v in x.items()}
    if isinstance(x, (list, tuple)) and type(x) in (list, tuple):
        return [plain(v, sdl) for v in x]
    return sdl.serialize_schemdraw_element(x)


def observe(e, table, sdl):
    """what the model says about a symbol, read off a live / reloaded element"""
    cid = table.get(type(e))
    anchors = getattr(e, 'absanchors', {})
    return {'cls': cid, '_name': getattr(e, '_name', None), 'name': getattr(e, 'name', None), 'reverse': getattr(e, 'is_reverse', None),
            'attr': {k[1:]: vars(e)[k] for k in PRIVATE if k in vars(e)},
            'user': plain(modelled_user(dict(e._userparams)), sdl),
            'start': anchors.get('start'), 'end': anchors.get('end')}


def diff_symbol(o, m, path):
    if o['cls'] != m['cls']:
        return f"{path}: class {CLASS_NAMES.get(o['cls'], o['cls'])} (implementation) vs {CLASS_NAMES.get(m['cls'], m['cls'])} (model)"
    for k in ('_name', 'name', 'reverse'):
        if o[k] != m[k] or type(o[k]) is not type(m[k]):
            return f'{path}.{k}: implementation {o[k]!r}, model {m[k]!r}'
    r = diff_items(o['attr'], m['attr'], path + '.attr', ordered=False)
    if r:
        return r
    r = diff_items(o['user'], m['user'], path + '._userparams')
    if r:
        return r
    for k in ('start', 'end'):
        p = o[k]
        if p is None or frac_point(p) != m[k]:
            return f'{path}.absanchors.{k}: implementation {p!r}, model {show(list(m[k]))}'
    return None


def node_names(d):
    """rounded terminal point -> node name, as DiagramTranslator computes it"""
    import schemdraw.util
    import CircuitCalculator.SimpleCircuit.Elements as elm
    from CircuitCalculator.SimpleCircuit.DiagramParser import SchematicDiagramParser
    parser = SchematicDiagramParser(d)

    def name(p):
        return parser._get_node_index(elm.round_node(schemdraw.util.Point((float(p[0]), float(p[1])))))
    return name


def diff_components(impl, mod, name, path):
    """impl: list of (type, id, nodes, value dict); mod: list of decoded components (None = no component)"""
    mod = [c for c in mod if c is not None]
    if [(c[0], c[1]) for c in impl] != [(c['type'], c['id']) for c in mod]:
        return f"{path}: implementation {[(c[0], c[1]) for c in impl]}, model {[(c['type'], c['id']) for c in mod]}"
    for (ty, cid, nodes, value), c in zip(impl, mod):
        try:
            want = [name(p) for p in c['nodes']]
        except KeyError:
            return f"{path}.{cid}.nodes: the model's terminal points {[tuple(map(float, p)) for p in c['nodes']]} are no nodes of the drawing"
        if list(nodes) != want:
            return f'{path}.{cid}.nodes: implementation {list(nodes)}, model {want}'
        r = diff_items(dict(value), c['value'], f'{path}.{cid}.value')
        if r:
            return r
    return None


def impl_components(d):
    from CircuitCalculator.SimpleCircuit.DiagramTranslator import circuit_translator
    return [(c.type, c.id, list(c.nodes), dict(c.value)) for c in circuit_translator(d).components]


def model_err(r):
    return r[1] if r[0] == 'err' else None


def first_err(results):
    for r in results:
        if r[0] == 'err':
            return r[1]
    return None


# ------------------------------------------------------------------ cases
def extra_programs(programs):
    """what the property's generator leaves out: sin=True on the AC / rectangular sources (phi -= pi/2 only for the AC ones), a passive
    symbol with an explicit reverse flag, a symbol class without translator (Admittance: saving raises)"""
    out = []
    seen = set()
    for p in programs:
        kinds = tuple(sorted({s['cls'] for s in p['symbols'] if s['cls'][:2] in ('AC', 'Re') and s['cls'].endswith('Source')}))
        if not kinds or kinds in seen:
            continue
        seen.add(kinds)
        for flags in ((True, None), (True, True), (True, False)):
            q = copy.deepcopy(p)
            for s in q['symbols']:
                if s['cls'][:2] in ('AC', 'Re') and s['cls'].endswith('Source'):
                    s['kw']['sin'] = flags[0]
                    if flags[1] is not None:
                        s['kw']['deg'] = flags[1]
            out.append(q)

    def L(p, q):
        return {'cls': 'Line', 'name': '', 'p': list(p), 'q': list(q), 'reverse': False, 'kw': {}}
    base = [{'cls': 'VoltageSource', 'name': 'V1', 'p': [0, 0], 'q': [0, 1], 'reverse': True, 'kw': {'V': 10.0}},
            {'cls': 'Resistor', 'name': 'R1', 'p': [0, 1], 'q': [1, 1], 'reverse': False, 'kw': {'R': 10.0, 'reverse': True}},
            {'cls': 'Impedance', 'name': 'Z1', 'p': [1, 1], 'q': [1, 0], 'reverse': False, 'kw': {'Z': [2.0, -3.0], 'reverse': False}},
            L((1, 0), (0, 0)), {'cls': 'Ground', 'name': 'gnd', 'p': [0, 0], 'q': None, 'reverse': False, 'kw': {}}]
    out.append({'unit': 3, 'symbols': base})
    out.append({'unit': 3, 'symbols': base + [{'cls': 'Admittance', 'name': 'Y1', 'p': [0, 1], 'q': [0, 2], 'reverse': False, 'kw': {'Y': 2.0}}]})
    return out


def direct_cases():
    """constructor calls the program generator cannot express, built directly: (title, unit, [(class, kwargs, p, q)])"""
    loop = [('Line', {}, (1, 1), (1, 0)), ('Line', {}, (1, 0), (0, 0))]
    base = [('VoltageSource', {'name': 'V1', 'V': 10.0}, (0, 0), (0, 1)), ('Resistor', {'name': 'R1', 'R': 5.0}, (0, 1), (1, 1))] + loop
    g0 = [('Ground', {'name': '0'}, (0, 0), None)]
    return [
        ('Ground() without name', 3, base + [('Ground', {}, (0, 0), None)]),
        ('Ground(name=g)', 3, base + [('Ground', {'name': 'g'}, (0, 0), None)]),
        ('Line(name=L)', 3, base + [('Line', {'name': 'L'}, (0, 1), (0, 2))] + g0),
        ('integers, complex V for VoltageSource', 2, [('VoltageSource', {'name': 'V1', 'V': 3 + 4j, 'reverse': True}, (0, 0), (0, 1)),
                                                      ('Resistor', {'name': 'R1', 'R': 5}, (0, 1), (1, 1))] + loop + g0),
        ('display options', 3, [('VoltageSource', {'name': 'V1', 'V': 3.0, 'precision': 2}, (0, 0), (0, 1)),
                                ('Resistor', {'name': 'R1', 'R': 5, 'show_name': False}, (0, 1), (1, 1))] + loop + g0),
        ('sin, deg, integer phase, reversed', 3, [('ACVoltageSource', {'name': 'V1', 'V': 3.0, 'w': 2, 'phi': 90, 'sin': True, 'deg': True, 'reverse': True},
                                                   (0, 0), (0, 1)), ('Capacitor', {'name': 'C1', 'C': 5}, (0, 1), (1, 1))] + loop + g0),
        ('None-valued keyword', 3, [('CurrentSource', {'name': 'I1', 'I': 2.0, 'color': None, 'reverse': True}, (0, 0), (0, 1)),
                                    ('Inductance', {'name': 'L1', 'L': 0.5, 'reverse': True}, (0, 1), (1, 1))] + loop + g0),
        ('ground named like a component', 3, base + [('Ground', {'name': 'R1'}, (0, 0), None)]),
        ('no ground', 7, base),
    ]


def build_direct(unit, items):
    import CircuitCalculator.SimpleCircuit.Elements as elm
    d = elm.Schematic(unit=unit)
    live = []
    for cname, kw, p, q in items:
        e = getattr(elm, cname)(**kw)
        e = e.at((p[0] * unit, p[1] * unit)) if q is None else e.endpoints((p[0] * unit, p[1] * unit), (q[0] * unit, q[1] * unit))
        d.add(e)
        live.append(e)
    return d, live


def add_case(ctx, cases, table, vname, prog, d, live, ctor_calls):
    calls = []
    for (cname, kw), e in zip(ctor_calls, live):
        cid = CLASS_IDS.get(cname)
        a = getattr(e, 'absanchors', {})
        if cid is None or table.get(type(e)) != cid or 'start' not in a or 'end' not in a:
            calls = None
            break
        calls.append((cid, kw, frac_point(a['start']), frac_point(a['end'])))
    if calls is None or len(live) != len(d.elements) or len(live) != len(ctor_calls):
        ctx.count('correspondence:skipped-outside-model-scope')
        return
    cases.append((vname, prog, d, live, calls))


def correspond(ctx, programs, extras=True, only_direct=None):
    import matplotlib.pyplot as plt
    from CircuitCalculator.SimpleCircuit import dump_load as sdl
    table = class_table()
    cases = []
    uniq = []
    seen = set()
    for p in programs:
        k = json.dumps(p, sort_keys=True)
        if k not in seen:
            seen.add(k)
            uniq.append(p)
    for vname, plist in (('as-examined', uniq), ('extra', extra_programs(uniq) if extras else [])):
        for prog in plist:
            try:
                d, live = drawgen.build(prog)
            except Exception:  # noqa: BLE001 - reported by the implementation-side check
                ctx.count('correspondence:drawing-not-buildable(excluded)')
                continue
            add_case(ctx, cases, table, vname, prog, d, live, [(s['cls'], call_kwargs(s)) for s in prog['symbols']])
            plt.close('all')
    for title, unit, items in (direct_cases() if extras or only_direct else []):
        if only_direct is not None and title != only_direct:
            continue
        prog = {'direct': title, 'unit': unit, 'calls': [[c, {k: ([v.real, v.imag] if isinstance(v, complex) else v) for k, v in kw.items()}, p, q]
                                                          for c, kw, p, q in items], 'symbols': []}
        try:
            d, live = build_direct(unit, items)
        except Exception as e:  # noqa: BLE001
            ctx.violation(f'correspondence:C15-direct-case-raises-{type(e).__name__}', f'{title}: {str(e)[:120]}', {'program': prog}, kind='obligation')
            continue
        add_case(ctx, cases, table, 'direct', prog, d, live, [(c, kw) for c, kw, _, _ in items])
        plt.close('all')
    outs = run_model([tok_case(c[4]) for c in cases])
    for (vname, prog, d, live, calls), toks in zip(cases, outs):
        ctx.count('correspondence:cases')
        rep = {'program': prog, 'variant': vname}

        def report(what, text):
            ctx.violation('correspondence:C15-' + what, text, rep, kind='obligation')
        try:
            m = decode(toks)
        except Exception as e:  # noqa: BLE001
            report('undecodable-model-result', f'{type(e).__name__}: {toks[:20]}')
            continue
        if m['tag'] != 0:
            report('model-rejects', f'model result {toks[:8]}')
            continue
        try:
            bad = compare_case(ctx, sdl, table, d, live, m, calls)
        except Exception as e:  # noqa: BLE001
            import traceback
            bad = (f'comparison-raises-{type(e).__name__}', traceback.format_exc()[-400:])
        plt.close('all')
        if bad is not None:
            report(*bad)
            continue
        ctx.count('correspondence:agree')
        if vname == 'direct':
            ctx.count('correspondence:agree:direct:' + prog['direct'])
        for s in prog['symbols']:
            ctx.count('correspondence:agree:' + s['cls'] + (':reverse' if (s['reverse'] or s['kw'].get('reverse')) else '') + (':sin' if s['kw'].get('sin') else '')
                      + (':deg' if s['kw'].get('deg') else ''))
    for k, v in STATS.items():
        ctx.count('correspondence:' + k, v)
    STATS.clear()


# DOCUMENTED DEVIATIONS OF THE MODEL (both in [mk_user] of Model/SaveLoad.v; correction: model_fix.patch; no theorem is affected,
# the theorems quantify over arbitrary _userparams and conclude about the views, which do not contain them):
#  D1  Ground.__init__(name='0') hands `name` on to schemdraw's Element.__init__, which records it in _userparams even when the
#      caller gave no name; [mk_user] records only the keywords of the call.  For a Ground built WITHOUT a name keyword the entry
#      'name' of the live / saved _userparams is not compared (after a reload the loader always passes name: both sides have it).
#  D2  a keyword argument given as None that the class does not consume (color=None, ...) is dropped by Element.__new__ but
#      recorded again, as None, by Element.__init__(**kwargs); [mk_user] drops it.  Entries of the implementation's _userparams
#      that are None and were given as None in the constructor call are not compared (live, saved, reloaded).
# VERIF_C15_MODEL_FIXED=1 (the patch is applied): nothing is skipped.
MODEL_FIXED = True      # tools/c15run/model_fix.patch is applied to Model/SaveLoad.v: nothing is skipped


def nameless_ground(call):
    return not MODEL_FIXED and call[0] == CLASS_IDS['Ground'] and 'name' not in call[1]


def drop_name(u):
    return {k: v for k, v in u.items() if k != 'name'}


def drop_none(u, call, ctx=None):
    """D2"""
    if MODEL_FIXED:
        return u
    given = {k for k, v in call[1].items() if v is None}
    out = {k: v for k, v in u.items() if not (v is None and k in given)}
    if ctx is not None and len(out) != len(u):
        ctx.count('correspondence:documented-deviation:None-keyword-recorded-by-Element.__init__')
    return out


POST_INIT = {'AmbiguousComponentID', 'MultipleGroundNodes'}       # Circuit.__post_init__: outside the model (C07)


def compare_case(ctx, sdl, table, d, live, m, calls):
    # (1) the constructors
    err = first_err(m['constructed'])
    if err is not None:
        return ('constructor', f'the implementation built every symbol, the model answers {err} for one constructor call')
    for k, (e, r) in enumerate(zip(live, m['constructed'])):
        o = observe(e, table, sdl)
        o['user'] = drop_none(o['user'], calls[k], ctx)
        if nameless_ground(calls[k]):
            o['user'] = drop_name(o['user'])
            ctx.count('correspondence:documented-deviation:nameless-ground-userparams-name')
        bad = diff_symbol(o, r[1], f'symbol[{k}]')
        if bad:
            return ('constructed-symbol', 'live drawing vs construct: ' + bad)
        ctx.count('correspondence:constructed-symbols')
    # (4a) translation of the live drawing
    m_err = first_err(m['before'])
    try:
        before = ('ok', impl_components(d))
    except Exception as e:  # noqa: BLE001 - the class is the observable
        before = ('err', EXC.get(type(e).__name__, type(e).__name__))
    if before[0] == 'err' and before[1] in POST_INIT:
        ctx.count('correspondence:outside-model:Circuit.__post_init__-' + before[1])
        return None
    if (before[0] == 'err') != (m_err is not None) or (m_err is not None and before[1] != m_err):
        return ('translation', f'circuit_translator of the live drawing: implementation {before if before[0] == "err" else "ok"}, model {m_err or "ok"}')
    if before[0] == 'ok':
        bad = diff_components(before[1], [r[1] for r in m['before']], node_names(d), 'components')
        if bad:
            return ('translation', 'live drawing: ' + bad)
        ctx.count('correspondence:translated-components', len(before[1]))
    # (2) the saved document
    try:
        text = sdl.serialize(d, 'json')
        saved = ('ok', json.loads(text))
    except Exception as e:  # noqa: BLE001
        saved = ('err', EXC.get(type(e).__name__, type(e).__name__))
    if saved[0] != m['saved'][0] or (saved[0] == 'err' and saved[1] != m['saved'][1]):
        return ('save-outcome', f'serialize: implementation {saved if saved[0] == "err" else "ok"}, model {m["saved"] if m["saved"][0] == "err" else "ok"}')
    if saved[0] == 'err':
        ctx.count('correspondence:save-raises-' + saved[1])
        return None
    doc, mdoc = saved[1], m['saved'][1]
    if not (isinstance(mdoc, tuple) and mdoc[0] == 'dict') or list(doc.keys()) != [k for k, _ in mdoc[1]]:
        return ('saved-document', f'top-level keys {list(doc.keys())} vs model {show(mdoc)[:80]}')
    mtop = dict(mdoc[1])
    if list(doc['circuit'].keys()) != [k for k, _ in mtop['circuit'][1]]:
        return ('saved-document', f"circuit keys {list(doc['circuit'].keys())}")
    mcomps = dict(mtop['circuit'][1])['components']
    icomps = doc['circuit']['components']
    if len(mcomps) != len(icomps):
        return ('saved-components', f'{len(icomps)} components saved, model {len(mcomps)}')
    name = node_names(d)
    for ic, mc in zip(icomps, mcomps):
        mcd = dict(mc[1])
        if list(ic.keys()) != [k for k, _ in mc[1]]:
            return ('saved-components', f'keys {list(ic.keys())} vs model {[k for k, _ in mc[1]]}')
        for k in ('type', 'id', 'value'):
            bad = diff(ic[k], mcd[k], f"circuit.components.{ic.get('id')}.{k}")
            if bad:
                return ('saved-components', bad)
        want = [name(tuple(p)) for p in mcd['nodes']]
        if list(ic['nodes']) != want:
            return ('saved-components', f"circuit.components.{ic.get('id')}.nodes: implementation {ic['nodes']}, model {want}")
    msyms = mtop['simple_circuit']
    if len(msyms) != len(doc['simple_circuit']):
        return ('saved-symbols', f"{len(doc['simple_circuit'])} symbols saved, model {len(msyms)}")
    for k, (ie, me) in enumerate(zip(doc['simple_circuit'], msyms)):
        med = dict(me[1])
        if [x for x in ie.keys()] != [x for x, _ in me[1]]:
            return ('saved-symbols', f'simple_circuit[{k}]: keys {list(ie.keys())} vs model {[x for x, _ in me[1]]}')
        for key in ('type', 'name', 'reverse'):
            bad = diff(ie[key], med[key], f'simple_circuit[{k}].{key}')
            if bad:
                return ('saved-symbols', bad)
        mv = dict(med['values'][1])
        iv = ie['values']
        if not isinstance(iv, dict) or '_userparams' not in iv or 'absanchors' not in iv:
            return ('saved-symbols', f'simple_circuit[{k}].values: keys {list(iv.keys()) if isinstance(iv, dict) else iv!r}; the model has {list(mv)}')
        iu = drop_none(modelled_user(iv['_userparams']), calls[k])
        bad = diff(drop_name(iu) if nameless_ground(calls[k]) else iu, mv['_userparams'], f'simple_circuit[{k}].values._userparams')
        if bad:
            return ('saved-symbols', bad)
        ma = dict(mv['absanchors'][1])
        for key in ('start', 'end'):
            bad = diff(unpoint(iv['absanchors'].get(key)), ma[key], f'simple_circuit[{k}].values.absanchors.{key}')
            if bad:
                return ('saved-symbols', bad)
        ctx.count('correspondence:saved-symbols')
    # (3) the reloaded drawing, (4b) its translation
    try:
        back = sdl.deserialize(text, 'json')
        loaded = ('ok', back)
    except Exception as e:  # noqa: BLE001
        loaded = ('err', EXC.get(type(e).__name__, type(e).__name__))
    ml = m['loaded']
    if loaded[0] != ml[0] or (loaded[0] == 'err' and loaded[1] != ml[1]):
        return ('load-outcome', f'deserialize: implementation {loaded if loaded[0] == "err" else "ok"}, model {ml if ml[0] == "err" else "ok"}')
    if loaded[0] == 'err':
        ctx.count('correspondence:load-raises-' + loaded[1])
        return None
    msyms, mtrans = ml[1]
    if len(back.elements) != len(msyms):
        return ('loaded-symbols', f'{len(back.elements)} symbols loaded, model {len(msyms)}')
    for k, (e, ms) in enumerate(zip(back.elements, msyms)):
        o = observe(e, table, sdl)
        o['user'] = drop_none(o['user'], calls[k])
        bad = diff_symbol(o, ms, f'reloaded[{k}]')
        if bad:
            return ('loaded-symbol', 'deserialize vs load (save d): ' + bad)
        ctx.count('correspondence:loaded-symbols')
    m_err = first_err(mtrans)
    try:
        after = ('ok', impl_components(back))
    except Exception as e:  # noqa: BLE001
        after = ('err', EXC.get(type(e).__name__, type(e).__name__))
    if (after[0] == 'err') != (m_err is not None) or (m_err is not None and after[1] != m_err):
        return ('translation-after', f'circuit_translator of the reloaded drawing: implementation {after if after[0] == "err" else "ok"}, model {m_err or "ok"}')
    if after[0] == 'ok':
        bad = diff_components(after[1], [r[1] for r in mtrans], node_names(back), 'components')
        if bad:
            return ('translation-after', 'reloaded drawing: ' + bad)
        ctx.count('correspondence:translated-components-after', len(after[1]))
    return None


def replay(ctx, program):
    """a replay object of this module: a generated program, or the title of a direct case"""
    if 'direct' in program:
        correspond(ctx, [], extras=False, only_direct=program['direct'])
    else:
        correspond(ctx, [program], extras=False)
