"""Exact complex-rational arithmetic and an independent tableau oracle (no matrices shared with the
implementation or with the Coq model): unknowns = node potentials + one flow per branch; equations =
KCL at every non-reference node + one element law per branch (DESIGN §5 CircuitSpec)."""
from fractions import Fraction as Fr


class CQ:
    __slots__ = ('re', 'im')

    def __init__(s, re=0, im=0):
        s.re = re if isinstance(re, Fr) else Fr(re)
        s.im = im if isinstance(im, Fr) else Fr(im)

    @staticmethod
    def of(x):
        if isinstance(x, CQ):
            return x
        if isinstance(x, complex):
            return CQ(Fr(x.real), Fr(x.imag))
        if isinstance(x, (tuple, list)):
            return CQ(Fr(x[0]), Fr(x[1]))
        return CQ(Fr(x), 0)

    def __add__(a, b):
        b = CQ.of(b)
        return CQ(a.re + b.re, a.im + b.im)
    __radd__ = __add__

    def __sub__(a, b):
        b = CQ.of(b)
        return CQ(a.re - b.re, a.im - b.im)

    def __rsub__(a, b):
        return CQ.of(b) - a

    def __neg__(a):
        return CQ(-a.re, -a.im)

    def __mul__(a, b):
        b = CQ.of(b)
        return CQ(a.re * b.re - a.im * b.im, a.re * b.im + a.im * b.re)
    __rmul__ = __mul__

    def inv(a):
        d = a.re * a.re + a.im * a.im
        return CQ(a.re / d, -a.im / d)

    def conj(a):
        return CQ(a.re, -a.im)

    def __truediv__(a, b):
        return a * CQ.of(b).inv()

    def __rtruediv__(a, b):
        return CQ.of(b) * a.inv()

    def iszero(a):
        return a.re == 0 and a.im == 0

    def __eq__(a, b):
        b = CQ.of(b)
        return a.re == b.re and a.im == b.im

    def __hash__(a):
        return hash((a.re, a.im))

    def __complex__(a):
        return complex(float(a.re), float(a.im))

    def __abs__(a):
        return abs(complex(a))

    def __repr__(a):
        return f'({a.re}+{a.im}j)'


def solve(A, b):
    """Gauss-Jordan over CQ; None if singular."""
    n = len(A)
    M = [list(r) + [bb] for r, bb in zip(A, b)]
    for c in range(n):
        p = None
        for r in range(c, n):
            if not M[r][c].iszero():
                p = r
                break
        if p is None:
            return None
        M[c], M[p] = M[p], M[c]
        iv = M[c][c].inv()
        M[c] = [x * iv for x in M[c]]
        for r in range(n):
            if r != c and not M[r][c].iszero():
                f = M[r][c]
                M[r] = [x - f * y for x, y in zip(M[r], M[c])]
    return [M[r][n] for r in range(n)]


def inverse(A):
    n = len(A)
    M = [list(r) + [CQ(1 if i == j else 0) for j in range(n)] for i, r in enumerate(A)]
    for c in range(n):
        p = None
        for r in range(c, n):
            if not M[r][c].iszero():
                p = r
                break
        if p is None:
            return None
        M[c], M[p] = M[p], M[c]
        iv = M[c][c].inv()
        M[c] = [x * iv for x in M[c]]
        for r in range(n):
            if r != c and not M[r][c].iszero():
                f = M[r][c]
                M[r] = [x - f * y for x, y in zip(M[r], M[c])]
    return [row[n:] for row in M]


def law_of(br):
    """Declarative element law of a case branch: ('Z', z, vsrc) meaning  z*j = vsrc_term + v  forms, see below.
    Returns (form, p, s, linear):  form 'V': v - p*j = s ;  form 'I': j - p*v = s ; linear = reported current is -j."""
    c = br['ctor']
    a = [CQ.of(x) for x in br.get('args_exact', br['args'])]
    Z0 = CQ(0)
    if c in ('resistor', 'impedance'):
        return ('V', a[0], Z0, False)
    if c in ('conductor', 'admittance'):
        return ('I', a[0], Z0, False)
    if c == 'voltage_source':
        V, Z = a[0], a[1]
        if Z.iszero():
            return ('V', Z0, V, False)
        # linear voltage source (generator convention of the library): Z*j = V + v
        return ('V', Z, -V, not V.iszero())
    if c == 'current_source':
        I, Y = a[0], a[1]
        return ('I', Y, I, (not I.iszero()) and (not Y.iszero()))
    if c == 'open_circuit':
        return ('I', Z0, Z0, False)
    if c == 'short_circuit':
        return ('V', Z0, Z0, False)
    if c == 'load_v':
        S, vr = a[0], a[1]
        return ('I', S / (vr * vr), Z0, False)
    if c == 'load_i':
        S, ir = a[0], a[1]
        return ('V', S / (ir * ir), Z0, False)
    if c == 'raw_zv':
        Z, V = a[0], a[1]
        if Z.iszero():
            return ('V', Z0, V, False)
        return ('V', Z, -V, not V.iszero())
    if c == 'raw_yi':
        Y, I = a[0], a[1]
        return ('I', Y, I, (not I.iszero()) and (not Y.iszero()))
    raise ValueError(c)


def tableau(case):
    """returns (A, rhs, unknown_nodes, laws) for the case network"""
    brs = case['branches']
    gnd = case['zero']
    nodes = sorted({b['n1'] for b in brs} | {b['n2'] for b in brs})
    un = [n for n in nodes if n != gnd]
    N = len(un)
    B = len(brs)
    n = N + B
    A = [[CQ() for _ in range(n)] for _ in range(n)]
    rhs = [CQ() for _ in range(n)]
    laws = [law_of(b) for b in brs]
    for r, nd in enumerate(un):
        for k, b in enumerate(brs):
            if b['n1'] == nd:
                A[r][N + k] = A[r][N + k] + 1
            if b['n2'] == nd:
                A[r][N + k] = A[r][N + k] - 1
    for k, b in enumerate(brs):
        r = N + k
        form, p, s, _ = laws[k]

        def addv(c):
            if b['n1'] != gnd:
                A[r][un.index(b['n1'])] = A[r][un.index(b['n1'])] + c
            if b['n2'] != gnd:
                A[r][un.index(b['n2'])] = A[r][un.index(b['n2'])] - c
        if form == 'V':        # v - p*j = s
            addv(CQ(1))
            A[r][N + k] = A[r][N + k] - p
            rhs[r] = s
        else:                  # j - p*v = s
            A[r][N + k] = A[r][N + k] + 1
            addv(-p)
            rhs[r] = s
    return A, rhs, un, laws


def spec_solution(case):
    """Unique exact solution of the circuit equations, or None when the network is not well-posed
    (reference node absent, duplicate ids, or singular tableau)."""
    brs = case['branches']
    gnd = case['zero']
    nodes = {b['n1'] for b in brs} | {b['n2'] for b in brs}
    if brs and gnd not in nodes:
        return None
    ids = [b['id'] for b in brs]
    if len(set(ids)) != len(ids):
        return None
    A, rhs, un, laws = tableau(case)
    x = solve(A, rhs)
    if x is None:
        return None
    N = len(un)
    phi = {gnd: CQ(0)}
    for i, nd in enumerate(un):
        phi[nd] = x[i]
    sol = {'phi': phi, 'v': {}, 'j': {}, 'i': {}, 'p': {}, 'laws': {}}
    for k, b in enumerate(brs):
        j = x[N + k]
        v = phi[b['n1']] - phi[b['n2']]
        rep = -j if laws[k][3] else j
        sol['v'][b['id']] = v
        sol['j'][b['id']] = j
        sol['i'][b['id']] = rep
        sol['p'][b['id']] = v * rep.conj()
        sol['laws'][b['id']] = laws[k]
    return sol
