"""Running the implementation and the model on network cases; comparison helpers; shrinking."""
import copy

import numpy as np

from common import Toks, run_model, ERR_NAMES
from exact import CQ, spec_solution, tableau
import netgen


def impl_solve(case):
    """bias-point solution of the implementation through its public API"""
    from CircuitCalculator.Network.NodalAnalysis.bias_point_analysis import nodal_analysis_bias_point_solver
    try:
        net = netgen.impl_network(case)
        sol = nodal_analysis_bias_point_solver(net)
        out = {'phi': {}, 'v': {}, 'i': {}, 'p': {}}
        for n in net.node_labels:
            out['phi'][n] = complex(sol.get_potential(n))
        for b in net.branches:
            out['v'][b.id] = complex(sol.get_voltage(b.id))
            out['i'][b.id] = complex(sol.get_current(b.id))
            out['p'][b.id] = complex(sol.get_power(b.id))
        out['zero_fallback'] = not np.any(sol._solution_vector) if np.size(sol._solution_vector) else False
        return out
    except Exception as e:  # noqa: BLE001 - the exception class is the observable
        return {'exc': type(e).__name__, 'msg': str(e)[:200]}


def decode_solve(toks):
    t = Toks(toks)
    tag = t.z()
    if tag == 1:
        return {'exc': ERR_NAMES.get(t.z(), 'Other')}
    if tag != 0:
        return {'exc': f'codec{tag}'}
    out = {'phi': {}, 'v': {}, 'i': {}, 'p': {}}

    def node():
        l = t.label()
        out['phi'][l] = t.res(t.c)
    t.lst(node)

    def br():
        l = t.label()
        out['v'][l] = t.res(t.c)
        out['i'][l] = t.res(t.c)
        out['p'][l] = t.res(t.c)
    t.lst(br)
    return out


def model_solve(cases):
    outs = run_model([[1] + netgen.tok_network(c) for c in cases])
    return [decode_solve(o) for o in outs]


def cond_of(case):
    try:
        A, _, _, _ = tableau(case)
        M = np.array([[complex(x) for x in r] for r in A])
        if M.size == 0:
            return 1.0
        return float(np.linalg.cond(M))
    except Exception:  # noqa: BLE001
        return float('inf')


def mna_cond(case):
    """2-norm condition number of a nodal (MNA) matrix assembled independently here from the declarative laws:
    what a nodal solver in binary64 is conditioned by (a tableau can be far better conditioned)."""
    try:
        from exact import law_of
        brs = case['branches']
        gnd = case['zero']
        nodes = sorted({b['n1'] for b in brs} | {b['n2'] for b in brs})
        un = [n for n in nodes if n != gnd]
        ix = {n: k for k, n in enumerate(un)}
        vs = []
        N = len(un)
        laws = [law_of(b) for b in brs]
        for k, (form, p, s, _) in enumerate(laws):
            if form == 'V' and p.iszero():
                vs.append(k)
        M = np.zeros((N + len(vs), N + len(vs)), dtype=complex)
        for k, (b, (form, p, s, _)) in enumerate(zip(brs, laws)):
            a, c = ix.get(b['n1']), ix.get(b['n2'])
            if k in vs:
                col = N + vs.index(k)
                if a is not None:
                    M[a, col] += 1
                    M[col, a] += 1
                if c is not None:
                    M[c, col] -= 1
                    M[col, c] -= 1
                continue
            y = complex(p) if form == 'I' else 1 / complex(p)
            if a is not None:
                M[a, a] += y
            if c is not None:
                M[c, c] += y
            if a is not None and c is not None:
                M[a, c] -= y
                M[c, a] -= y
        if M.size == 0:
            return 1.0
        return float(np.linalg.cond(M))
    except Exception:  # noqa: BLE001
        return float('inf')


def cq_to_c(x):
    return complex(float(x[0]), float(x[1])) if isinstance(x, tuple) else complex(x)


def scales(exact_sol, case):
    """magnitude scales for potentials/voltages, currents, powers.  A backward-stable solve of the nodal system
    has error ~ kappa*eps*|x|_inf where x mixes potentials and ideal-voltage-source currents; a current computed
    as v*Y inherits the error of v scaled by |Y|."""
    sv = max([abs(complex(x)) for x in exact_sol['phi'].values()] + [0.0])
    si = max([abs(complex(x)) for x in exact_sol['j'].values()] + [0.0])
    ymax = 1.0
    for b in case['branches']:
        form, p, s, _ = exact_sol['laws'][b['id']]
        pm = abs(complex(p))
        if form == 'V' and pm == 0:
            sv = max(sv, abs(complex(exact_sol['j'][b['id']])))
        elif form == 'I':
            ymax = max(ymax, pm)
        elif pm > 0:
            ymax = max(ymax, 1 / pm)
    sv = max(sv, 1e-300)
    si = max(si, sv * ymax)
    return sv, si, sv * si


def compare_numbers(a, b, scale, tol):
    return abs(complex(a) - complex(b)) <= tol * scale


def shrink(case, pred, max_steps=200):
    """greedy delta-debugging: drop branches, simplify values, while pred(case) stays true"""
    cur = copy.deepcopy(case)
    steps = 0
    changed = True
    while changed and steps < max_steps:
        changed = False
        for k in range(len(cur['branches'])):
            cand = copy.deepcopy(cur)
            del cand['branches'][k]
            steps += 1
            try:
                if cand['branches'] and pred(cand):
                    cur = cand
                    changed = True
                    break
            except Exception:  # noqa: BLE001
                pass
        if changed:
            continue
        for k, b in enumerate(cur['branches']):
            for ai, a in enumerate(b['args']):
                for new in ([1.0, 0.0], [a[0], 0.0]):
                    if a != new and not (a[0] == 0 and a[1] == 0):
                        cand = copy.deepcopy(cur)
                        cand['branches'][k]['args'][ai] = new
                        steps += 1
                        try:
                            if pred(cand):
                                cur = cand
                                changed = True
                                break
                        except Exception:  # noqa: BLE001
                            pass
                if changed:
                    break
            if changed:
                break
    return cur
