"""C15 — saving, reloading and declarative descriptions preserve the circuit."""
import copy
import random

import drawgen
from common import standard_prologue

RULE = ('cases = (i) grid drawings of C13 restricted to the symbol kinds the loader can rebuild (DC/AC/rectangular/complex sources with '
        'either reversal flag, resistor, conductance, impedance, capacitor, inductance, ground, wire): serialize to JSON, deserialize, '
        'translate both drawings and compare components (identifier, kind, values, terminal order), connectivity up to a bijective renaming '
        'of nodes and the reference node; repeated for 3 further save/load cycles; a second deserialisation in the same process must give '
        'the same circuit (no state shared between loads); (ii) declarative element lists over the handler table (type, values, direction in '
        'all four senses, length, place_after) vs the equivalent programmatic construction (same classes, .up()/.right()/..., .at(previous end)); '
        'the description object must be unchanged and a second create_schematic of the same object must give the same circuit.  distinct = '
        'distinct program / description; non-trivial = >= 3 symbols with a source and a wire')

TRUSTED = [
    'Coq 8.16.1 kernel (round-trip theorem over the data-path model)',
    'schemdraw object graph (segments, transforms, labels) and the json library are third-party runtime behaviour',
    'circuit_translator is used on both sides of every comparison (its own correctness is C13)',
]


def translated(d):
    from CircuitCalculator.SimpleCircuit.DiagramTranslator import circuit_translator
    c = circuit_translator(d)
    return [(x.type, x.id, tuple(x.nodes), dict(x.value)) for x in c.components], c.ground_node


def same_circuit(a, b):
    """two translated circuits equal up to a bijective renaming of node names -> None or description of the difference"""
    (ca, ga), (cb, gb) = a, b
    if [(t, i) for t, i, _, _ in ca] != [(t, i) for t, i, _, _ in cb]:
        return f'components differ: {[(t, i) for t, i, _, _ in ca]} vs {[(t, i) for t, i, _, _ in cb]}'
    fwd, bwd = {}, {}
    for (t, i, na, va), (_, _, nb, vb) in zip(ca, cb):
        if len(na) != len(nb):
            return f'{i}: terminal count'
        for x, y in zip(na, nb):
            if fwd.setdefault(x, y) != y or bwd.setdefault(y, x) != x:
                return f'{i}: connectivity differs (node {x!r} <-> {y!r} conflicts with {fwd.get(x)!r}/{bwd.get(y)!r})'
        if set(va) != set(vb):
            return f'{i}: value keys {sorted(va)} vs {sorted(vb)}'
        for k in va:
            x, y = va[k], vb[k]
            if isinstance(x, str) or isinstance(y, str):
                if x != y:
                    return f'{i}.{k}: {x!r} vs {y!r}'
            elif abs(complex(x) - complex(y)) > 1e-12 * max(1.0, abs(complex(x))):
                return f'{i}.{k}: {x!r} vs {y!r}'
    if ca and fwd.get(ga, ga) != gb:
        return f'reference node {ga!r} -> {fwd.get(ga)!r} but reloaded circuit has {gb!r}'
    return None


EXAMINED = []       # the programs roundtrip examined (handed to the model correspondence, slmodel)


def roundtrip(ctx, program):
    import matplotlib.pyplot as plt
    from CircuitCalculator.SimpleCircuit import dump_load as sdl
    import c13
    program = c13.clean(program)
    ctx.evaluations += 1
    EXAMINED.append(program)
    rep = {'program': program}
    try:
        d, _ = drawgen.build(program)
        base = translated(d)
    except Exception:  # noqa: BLE001
        ctx.count('drawing-not-translatable(excluded; C13)')
        return
    cur = d
    for cycle in range(1, 5):
        try:
            text = sdl.serialize(cur, 'json')
            back = sdl.deserialize(text, 'json')
            if len(back.elements) != len(cur.elements):
                ctx.violation('C15:round-trip-changes-symbol-count', f'cycle {cycle}: {len(cur.elements)} symbols saved, {len(back.elements)} loaded '
                              f'(state shared between loads?)', dict(rep, cycle=cycle))
                return
            got = translated(back)
        except Exception as e:  # noqa: BLE001
            ctx.violation(f'C15:round-trip-raises-{type(e).__name__}', f'cycle {cycle}: {str(e)[:120]}', dict(rep, cycle=cycle))
            return
        diff = same_circuit(base, got)
        if diff:
            ctx.violation('C15:round-trip-changes-circuit', f'after {cycle} save/load cycle(s): {diff}', dict(rep, cycle=cycle))
            return
        if cycle == 1:
            # through a file: ONE path is rewritten with every drawing of the run and must give back the drawing just written
            try:
                import os
                import tempfile
                path = os.path.join(tempfile.gettempdir(), f'c15_drawing_{os.getpid()}.json')
                sdl.dump(path, cur)
                from_file = translated(sdl.load(path))
                ctx.count('saved-to-and-loaded-from-one-rewritten-path')
                diff = same_circuit(base, from_file)
                if diff:
                    ctx.violation('C15:file-round-trip-changes-circuit', f'dump(path) then load(path): {diff} (the path held other drawings before)', rep)
                    return
            except Exception as e:  # noqa: BLE001
                ctx.violation(f'C15:file-round-trip-raises-{type(e).__name__}', str(e)[:120], rep)
                return
            finally:
                try:
                    os.remove(path)
                except Exception:  # noqa: BLE001
                    pass
            # loading the same text again in the same process must give the same circuit
            try:
                again_d = sdl.deserialize(text, 'json')
                if len(again_d.elements) != len(cur.elements):
                    ctx.violation('C15:second-load-differs', f'deserialising the same text a second time gives {len(again_d.elements)} symbols '
                                  f'instead of {len(cur.elements)}', rep)
                    return
                again = translated(again_d)
                diff = same_circuit(base, again)
                if diff:
                    ctx.violation('C15:second-load-differs', f'deserialising the same text a second time: {diff}', rep)
                    return
            except Exception as e:  # noqa: BLE001
                ctx.violation(f'C15:second-load-raises-{type(e).__name__}', str(e)[:120], rep)
                return
        cur = back
    syms = program['symbols']
    if len(syms) >= 3 and any(s['cls'].endswith('Source') for s in syms) and any(s['cls'] == 'Line' for s in syms):
        ctx.nontriv(syms)
    for s in syms:
        ctx.count('symbol:' + s['cls'])
    ctx.sample(rep, cap=2)
    plt.close('all')


DIRS = ['right', 'up', 'left', 'down']


def declarative_case(rng):
    """a loop: source up, then elements around a rectangle back to the start, plus an optional branch placed after an earlier element"""
    types = [('resistor', 'R', lambda: {'R': rng.choice([1.0, 10.0, 47.0])}), ('conductance', 'G', lambda: {'G': rng.choice([0.5, 0.1])}),
             ('capacitor', 'C', lambda: {'C': rng.choice([1e-3, 2.2e-6])}), ('inductance', 'L', lambda: {'L': rng.choice([0.1, 1e-3])}),
             ('impedance', 'Z', lambda: {'Z': complex(rng.choice([1.0, 5.0]), rng.choice([-2.0, 3.0]))}),
             ('lamp', 'La', lambda: {'V_ref': 12.0, 'P_ref': rng.choice([5.0, 21.0])})]
    src = rng.choice([('voltage_source', {'V': rng.choice([1.0, 12.0, -5.0])}), ('current_source', {'I': rng.choice([0.5, 2.0])}),
                      ('ac_voltage_source', {'V': 10.0, 'w': 50.0, 'phi': rng.choice([0.0, 0.5])})])
    L = rng.choice([1, 2])
    els = [dict({'type': src[0], 'name': 'S', 'direction': 'up', 'length': L, 'reverse': rng.random() < 0.3}, **src[1])]
    k = 0

    def passive(direction, length, **extra):
        nonlocal k
        k += 1
        t, pre, vals = rng.choice(types)
        e = dict({'type': t, 'name': f'{pre}{k}', 'direction': direction, 'length': length}, **vals())
        e.update(extra)
        return e
    els.append(passive('right', 1))
    if rng.random() < 0.5:
        els.append(passive('right', 1))
        width = 2
    else:
        width = 1
    els.append(passive('down', L))
    # the return wire in one piece or in k equal segments whose length is not a multiple of 0.01 drawing units (1/3, 1/7, ...)
    k = rng.choice([1, 1, 3, 7, 6])
    for _ in range(k):
        els.append({'type': 'line', 'direction': 'left', 'length': width / k})
    if rng.random() < 0.6:
        # a shunt branch from the end of the first passive element down to the bottom rail
        first = els[1]['name']
        els.append(passive('down', L, place_after=first))
    els.append({'type': 'ground', 'place_after': None} if False else {'type': 'ground'})
    return {'unit': rng.choice([2, 3, 2.5, 7]), 'elements': els}


def programmatic(desc):
    """the same drawing built directly with the element classes"""
    import CircuitCalculator.SimpleCircuit.Elements as elm
    cls = {'resistor': elm.Resistor, 'conductance': elm.Conductance, 'capacitor': elm.Capacitor, 'inductance': elm.Inductance,
           'impedance': elm.Impedance, 'lamp': elm.Lamp, 'voltage_source': elm.VoltageSource, 'current_source': elm.CurrentSource,
           'ac_voltage_source': elm.ACVoltageSource, 'line': elm.Line, 'ground': elm.Ground}
    u = desc['unit']
    d = elm.Schematic(unit=u)
    placed = {}
    with d:
        for e in desc['elements']:
            kw = {k: v for k, v in e.items() if k not in ('type', 'direction', 'length', 'place_after')}
            kw.setdefault('name', '')          # element_factory's defaults
            kw.setdefault('reverse', False)
            el = cls[e['type']](**kw)
            if 'direction' in e:
                el = getattr(el, e['direction'])(e.get('length', 1) * u)
            if e.get('place_after') is not None:
                el = el.at(placed[e['place_after']].end)
            d += el
            if 'name' in e:
                placed[e['name']] = el
    return d


def declarative(ctx, rng):
    import matplotlib.pyplot as plt
    from CircuitCalculator.SimpleSimulation.schematic import create_schematic
    desc = declarative_case(rng)
    ctx.evaluations += 1
    before = copy.deepcopy(desc)
    rep = {'description': before}
    try:
        a = translated(programmatic(copy.deepcopy(desc)))
    except Exception as e:  # noqa: BLE001
        ctx.count(f'programmatic-construction-raises-{type(e).__name__}(excluded)')
        return
    try:
        b = translated(create_schematic(desc))
    except Exception as e:  # noqa: BLE001
        ctx.violation(f'C15:create_schematic-raises-{type(e).__name__}', str(e)[:120], rep)
        return
    diff = same_circuit(a, b)
    if diff:
        ctx.violation('C15:declarative-differs-from-programmatic', diff, rep)
        return
    if desc != before:
        ctx.violation('C15:create_schematic-mutates-description', f'description changed: {desc}', rep)
        return
    try:
        c = translated(create_schematic(desc))
        diff = same_circuit(a, c)
        if diff:
            ctx.violation('C15:second-create_schematic-differs', diff, rep)
    except Exception as e:  # noqa: BLE001
        ctx.violation(f'C15:second-create_schematic-raises-{type(e).__name__}', str(e)[:120], rep)
    ctx.nontriv(before['elements'])
    for e in before['elements']:
        ctx.count('declared:' + e['type'] + (':place_after' if e.get('place_after') else ''))
    plt.close('all')


def run(ctx):
    ctx.trusted = TRUSTED
    ctx.partial = ['the schemdraw object graph that is written and restored (segments, transforms, labels) is third-party state: the '
                   'comparison is on the translated circuits']
    if standard_prologue(ctx):
        rng = random.Random(ctx.seed + 15)
        n = 12 if ctx.tier == 'quick' else 300
        kinds = [k for k in drawgen.PERSISTABLE]
        for _ in range(n):
            roundtrip(ctx, drawgen.random_program(rng, kinds=kinds, max_cells=2, n_labels=0))
        for k in drawgen.PERSISTABLE:
            if k.endswith('Source'):
                for rev in (False, True):
                    p = drawgen.random_program(rng, kinds=[k, 'Resistor'], n_sources=1, max_cells=1, n_labels=0)
                    for s in p['symbols']:
                        if s['cls'] == k:
                            s['reverse'] = rev
                    roundtrip(ctx, p)
        for _ in range(12 if ctx.tier == 'quick' else 300):
            declarative(ctx, rng)
        import slmodel
        slmodel.correspond(ctx, EXAMINED)
    return RULE


def replay(ctx, obj):
    ctx.trusted = TRUSTED
    if standard_prologue(ctx):
        c = obj['case']
        if 'program' in c:
            import slmodel
            if 'direct' not in c['program']:
                roundtrip(ctx, c['program'])
            slmodel.replay(ctx, c['program'])
        else:
            run(ctx)
    return RULE
