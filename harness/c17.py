"""C17 — loading describes exactly what was written, without side effects."""
import cmath
import os
import copy
import math
import random

import numpy as np

from common import standard_prologue

RULE = ('cases = (i) every element kind of the network loader table x value notations (real number, Cartesian {real,imag}, polar '
        '{abs,phase} in radians) x positions in a 1-3 entry description: the loaded branch must carry exactly the given id, terminals '
        'and value (compared with the element constructor called directly), the description object must be unchanged (deep snapshot) '
        'and a second load of the same object must give an equal network; (ii) to_complex: Cartesian vs polar vs degree notation of '
        'the same number, argument unchanged; (iii) dump_load: randomly generated nested documents (dicts in dicts in lists in lists, '
        'complex leaves at any depth, scalars in lists) through serialize/deserialize in json, yaml and yml: the result equals the '
        'input and the input object is unchanged; the three complex notations undictify to the same number; (iv) circuit loader: '
        'generate_component(dict of a component) == the component for every kind of the circuit loader table, circuit '
        'serialize/deserialize round trip.  distinct = distinct (kind, notation, position) / distinct document shape; non-trivial = '
        'contains a complex value or a nested container')

TRUSTED = [
    'Coq 8.16.1 kernel; extraction (ExtrOcamlBasic only) + hex driver',
    'translator tools/gen_tables.py (loader tables) — fail-closed',
    'json / yaml libraries (binary64 repr round trip)', 'np.cos/np.sin as oracles for the polar notation',
]


def cplx_notations(z):
    z = complex(z)
    return {'cartesian': {'real': z.real, 'imag': z.imag}, 'polar': {'abs': abs(z), 'phase': cmath.phase(z)}}


def snapshot(x):
    return copy.deepcopy(x)


def same_struct(a, b):
    """deep equality that distinguishes types of containers and compares floats exactly"""
    if type(a) is not type(b):
        if isinstance(a, (int, float)) and isinstance(b, (int, float)) and not isinstance(a, bool) and not isinstance(b, bool):
            return a == b
        return False
    if isinstance(a, dict):
        return set(a.keys()) == set(b.keys()) and all(same_struct(a[k], b[k]) for k in a)
    if isinstance(a, (list, tuple)):
        return len(a) == len(b) and all(same_struct(x, y) for x, y in zip(a, b))
    if isinstance(a, float) and math.isnan(a) and math.isnan(b):
        return True
    return a == b


def close_c(a, b, rel=1e-12):
    a, b = complex(a), complex(b)
    return abs(a - b) <= rel * max(abs(a), abs(b)) + 1e-300        # purely relative: small magnitudes count


def elem_close(e1, e2):
    if type(e1) is not type(e2) or e1.name != e2.name or e1.type != e2.type:
        return False
    fields = ('Z', 'V') if hasattr(e1, '__dataclass_fields__') and 'Z' in e1.__dataclass_fields__ else ('Y', 'I')
    return all(close_c(getattr(e1, f), getattr(e2, f)) for f in fields)


def loader_kinds():
    from CircuitCalculator.Network import elements as elm
    z1, z2 = 3 + 4j, 4.7e-7 - 2.5e-8j          # one ordinary and one small value (a capacitive admittance)
    return {
        'resistor': (lambda n: {'R': 10.0}, lambda v, name: elm.resistor(name, 10.0), []),
        'conductor': (lambda n: {'G': 0.25}, lambda v, name: elm.conductor(name, 0.25), []),
        'impedance': (lambda n: {'Z': cplx_notations(z1)[n]}, lambda v, name: elm.impedance(name, z1), ['Z']),
        'admittance': (lambda n: {'Y': cplx_notations(z2)[n]}, lambda v, name: elm.admittance(name, z2), ['Y']),
        'linear_current_source': (lambda n: {'I': cplx_notations(z1)[n], 'Y': cplx_notations(z2)[n]},
                                  lambda v, name: elm.current_source(name, z1, z2), ['I', 'Y']),
        'current_source': (lambda n: {'I': cplx_notations(z1)[n]}, lambda v, name: elm.current_source(name, z1), ['I']),
        'real_current_source': (lambda n: {'I': 2.0, 'Y': 0.5}, lambda v, name: elm.current_source(name, 2.0, 0.5), []),
        'linear_voltage_source': (lambda n: {'V': cplx_notations(z1)[n], 'Z': cplx_notations(z2)[n]},
                                  lambda v, name: elm.voltage_source(name, z1, z2), ['V', 'Z']),
        'voltage_source': (lambda n: {'V': cplx_notations(z1)[n]}, lambda v, name: elm.voltage_source(name, z1), ['V']),
        'real_voltage_source': (lambda n: {'V': 5.0, 'Z': 2.0}, lambda v, name: elm.voltage_source(name, 5.0, 2.0), []),
        'short_circuit': (lambda n: {}, lambda v, name: elm.short_circuit(name), []),
        'open_circuit': (lambda n: {}, lambda v, name: elm.open_circuit(name), []),
    }


def network_loader(ctx, rng, quick):
    from CircuitCalculator.Network import loaders
    kinds = loader_kinds()
    table = set(loaders.network_branch_translators)
    if table != set(kinds):
        ctx.violation('C17:loader-table-changed', f'network_branch_translators has kinds {sorted(table ^ set(kinds))} the harness does not know',
                      {'kinds': sorted(table)}, kind='obligation')
    for kind, (mkvals, direct, cplx_keys) in kinds.items():
        for notation in (['cartesian', 'polar'] if cplx_keys else ['plain']):
            for n_entries in (1, 3):
                for pos in range(n_entries):
                    ctx.evaluations += 1
                    ctx.count(f'kind:{kind}')
                    ctx.count(f'notation:{notation}')
                    desc = []
                    for k in range(n_entries):
                        if k == pos:
                            desc.append(dict({'type': kind, 'id': 'X', 'N1': 'a', 'N2': '0'}, **mkvals(notation if cplx_keys else 'cartesian')))
                        else:
                            desc.append({'type': 'resistor', 'id': f'R{k}', 'N1': '0', 'N2': 'a', 'R': 1.0 + k})
                    before = snapshot(desc)
                    rep = {'description': before, 'position': pos}
                    ctx.nontriv([kind, notation, n_entries, pos])
                    try:
                        net = loaders.load_network(desc)
                    except Exception as e:  # noqa: BLE001
                        ctx.violation(f'C17:kind-does-not-load:{kind}', f'load_network raised {type(e).__name__}: {str(e)[:120]} for a documented kind', rep)
                        continue
                    b = net.branches[pos]
                    want = direct(None, 'X')
                    if (b.node1, b.node2, b.id) != ('a', '0', 'X') or not elem_close(b.element, want):
                        ctx.violation(f'C17:loaded-element-differs:{kind}', f'loaded {b} but the description says {want} between a and 0', rep)
                    if len(net.branches) != n_entries or [x.id for x in net.branches] != [d['id'] for d in before]:
                        ctx.violation('C17:loaded-branch-list-differs', f'{[x.id for x in net.branches]}', rep)
                    if not same_struct(desc, before):
                        ctx.violation('C17:load_network-mutates-description', f'description changed by loading: {str(desc)[:200]}', rep)
                    try:
                        net2 = loaders.load_network(desc)
                        if [(x.node1, x.node2, x.element) for x in net2.branches] != [(x.node1, x.node2, x.element) for x in net.branches]:
                            ctx.violation('C17:second-load-differs', 'loading the same description object twice gives different networks', rep)
                    except Exception as e:  # noqa: BLE001
                        ctx.violation('C17:second-load-fails', f'second load of the same description object raised {type(e).__name__}', rep)
                    # the same description through a file; ONE path is rewritten for every description of the run
                    try:
                        import json as _json
                        import tempfile
                        path = os.path.join(tempfile.gettempdir(), f'c17_network_{os.getpid()}.json')
                        with open(path, 'w') as f:
                            _json.dump(before, f)
                        net3 = loaders.load_network_from_json(path)
                        ctx.count('loaded-from-file')
                        if [(x.node1, x.node2, x.id) for x in net3.branches] != [(x.node1, x.node2, x.id) for x in net.branches] or \
                                not all(elem_close(x.element, y.element) for x, y in zip(net3.branches, net.branches)):
                            ctx.violation('C17:file-load-differs', f'load_network_from_json of the file holding this description gives {net3.branches} '
                                          f'(the path had held another description before)', rep)
                        # the same file with identifiers and node names outside ASCII, written as such (ensure_ascii=False, UTF-8 — what an
                        # editor saves); only where UTF-8 is the platform's text encoding, which is what open() without encoding= reads
                        import locale
                        if locale.getpreferredencoding(False).lower().replace('-', '') == 'utf8':
                            ren = {'a': 'Knoten ä'}          # ('0' is the loader's reference label and stays)
                            uni = [dict(d, id=d['id'] + 'ü€', N1=ren.get(d['N1'], d['N1']), N2=ren.get(d['N2'], d['N2'])) for d in before]
                            with open(path, 'w', encoding='utf-8') as f:
                                _json.dump(uni, f, ensure_ascii=False)
                            net4 = loaders.load_network_from_json(path)
                            ctx.count('loaded-from-file:non-ascii-names')
                            if [(x.node1, x.node2, x.id) for x in net4.branches] != [(ren.get(x.node1, x.node1), ren.get(x.node2, x.node2), x.id + 'ü€')
                                                                                     for x in net.branches]:
                                ctx.violation('C17:file-load-differs', f'identifiers / node names outside ASCII are not the ones in the file: '
                                              f'{[(x.node1, x.node2, x.id) for x in net4.branches]}', dict(rep, renamed=uni))
                    except Exception as e:  # noqa: BLE001
                        ctx.violation(f'C17:file-load-raises-{type(e).__name__}', str(e)[:120], rep)
                    finally:
                        try:
                            os.remove(path)
                        except OSError:
                            pass
    # to_complex
    for _ in range(30 if quick else 600):
        ctx.evaluations += 1
        z = complex(rng.choice([1, -2, 0.5, 3e-7, 1e6, 12, 2e-13, 4.7e-9]) * rng.choice([1, -1]), rng.choice([0, 33, -0.25, 4e-7, 2e5, 1e-12]))
        r, ph = abs(z), cmath.phase(z)
        cart = {'real': z.real, 'imag': z.imag}
        pol = {'abs': r, 'phase': ph}
        deg = {'abs': r, 'phase': math.degrees(ph)}
        snaps = [snapshot(cart), snapshot(pol), snapshot(deg)]
        try:
            a = loaders.to_complex(cart)
            b = loaders.to_complex(pol)
            c = loaders.to_complex(deg, degree=True)
        except Exception as e:  # noqa: BLE001
            ctx.violation('C17:to_complex-raises', f'{type(e).__name__}', {'z': [z.real, z.imag]})
            continue
        rep = {'z': [z.real, z.imag]}
        if not (close_c(a, z, 0) and close_c(b, z) and close_c(c, z, 1e-11)):
            ctx.violation('C17:notations-disagree', f'cartesian {a}, polar {b}, degrees {c} for {z}', rep)
        if not (same_struct(cart, snaps[0]) and same_struct(pol, snaps[1]) and same_struct(deg, snaps[2])):
            ctx.violation('C17:to_complex-mutates-argument', f'argument changed: {deg} (was {snaps[2]})', rep)


def gen_doc(rng, depth=0):
    """random nested document: dict at the top; values: scalars, complex, dicts, lists (of dicts, lists, scalars, complex)"""
    def leaf():
        r = rng.random()
        if r < 0.35:
            return complex(rng.choice([1.5, -2.0, 0.0, 1e-9, 12345.678]), rng.choice([0.25, -7.0, 3e-4, 0.0]))
        if r < 0.55:
            return rng.choice([1, 2.5, -3e-7, 0])
        if r < 0.7:
            return rng.choice(['a', 'resistor', ''])
        if r < 0.8:
            return rng.choice([True, False, None])
        return rng.choice([7, 1e10])

    def value(d):
        r = rng.random()
        if d >= 4 or r < 0.4:
            return leaf()
        if r < 0.7:
            return {rng.choice(['k', 'x', 'Z', 'value', 'n1', 'real', 'abs']) + str(i): value(d + 1) for i in range(rng.randint(0, 3))}
        return [value(d + 1) for _ in range(rng.randint(0, 3))]
    return {f'key{i}': value(1) for i in range(rng.randint(1, 4))}


def has_complex(x):
    if isinstance(x, complex):
        return True
    if isinstance(x, dict):
        return any(has_complex(v) for v in x.values())
    if isinstance(x, list):
        return any(has_complex(v) for v in x)
    return False


def depth_of(x):
    if isinstance(x, dict):
        return 1 + max([depth_of(v) for v in x.values()] + [0])
    if isinstance(x, list):
        return 1 + max([depth_of(v) for v in x] + [0])
    return 0


def documents(ctx, rng, quick):
    from CircuitCalculator import dump_load
    fixed = [{'a': 1 + 2j}, {'a': {'b': {'c': 1j}}}, {'l': [{'z': 2 - 1j}, {'w': [{'q': 3j}]}]}, {'l': [1, 2.5, 'x']},
             {'l': [[{'z': 1 + 1j}], [2j]]}, {'l': [1 + 1j, {'a': [2 + 2j]}]}, {'empty': {}, 'el': []}]
    docs = fixed + [gen_doc(rng) for _ in range(60 if quick else 2000)]
    for doc in docs:
        for fmt in ('json', 'yaml', 'yml'):
            ctx.evaluations += 1
            ctx.count('format:' + fmt)
            ctx.count(f'depth:{min(depth_of(doc), 6)}')
            before = snapshot(doc)
            rep = {'document': repr(before), 'format': fmt}
            if has_complex(doc) or depth_of(doc) >= 2:
                ctx.nontriv([repr(before), fmt])
            arg = snapshot(doc)
            try:
                text = dump_load.serialize(arg, fmt)
            except Exception as e:  # noqa: BLE001
                ctx.violation(f'C17:serialize-raises-{type(e).__name__}', f'serialize({fmt}) raised {type(e).__name__}: {str(e)[:100]}', rep)
                continue
            if not same_struct(arg, before):
                ctx.violation('C17:serialize-mutates-argument', f'data changed by serialize: {str(arg)[:200]}', rep)
            try:
                back = dump_load.deserialize(text, fmt)
            except Exception as e:  # noqa: BLE001
                ctx.violation(f'C17:deserialize-raises-{type(e).__name__}', f'deserialize({fmt}) raised {type(e).__name__}: {str(e)[:100]}', rep)
                continue
            if not same_struct(back, before):
                ctx.violation('C17:round-trip-differs', f'{fmt}: got {str(back)[:300]}', rep)
    # the three notations of one number
    for _ in range(20 if quick else 300):
        ctx.evaluations += 1
        z = complex(rng.choice([1, -2, 0.5, 3e-7, 1e6]), rng.choice([0, 33, -0.25, 4e-7]))
        r, ph = abs(z), cmath.phase(z)
        d = {'a': {'real': z.real, 'imag': z.imag}, 'b': {'abs': r, 'phase': ph}, 'c': {'abs': r, 'phase_deg': math.degrees(ph)},
             'n': [{'v': {'abs': r, 'phase': ph}}]}
        try:
            u = dump_load.undictify_all_complex_values(snapshot(d))
            if not (close_c(u['a'], z, 0) and close_c(u['b'], z) and close_c(u['c'], z, 1e-11) and close_c(u['n'][0]['v'], z)):
                ctx.violation('C17:notations-disagree', f'undictify: {u} for {z}', {'z': [z.real, z.imag]})
            # a notation is a SET of keys (JSON / YAML objects are unordered) and its numbers may be written without a decimal point
            rev = {'a': {'imag': z.imag, 'real': z.real}, 'b': {'phase': ph, 'abs': r}, 'c': {'phase_deg': math.degrees(ph), 'abs': r},
                   'n': [{'v': {'phase_deg': math.degrees(ph), 'abs': r}}], 'i': {'real': 3, 'imag': -4}, 'j': {'imag': 2, 'real': 0},
                   'k': {'abs': 2, 'phase_deg': 90}, 'l': {'phase': 0, 'abs': 5}}
            ctx.count('notations:keys-in-the-other-order / integer parts')
            u = dump_load.undictify_all_complex_values(snapshot(rev))
            ok = all(isinstance(u[k], complex) for k in 'abcijkl') and isinstance(u['n'][0]['v'], complex) and \
                close_c(u['a'], z, 0) and close_c(u['b'], z) and close_c(u['c'], z, 1e-11) and close_c(u['n'][0]['v'], z, 1e-11) and \
                u['i'] == 3 - 4j and u['j'] == 2j and close_c(u['k'], 2j, 1e-11) and u['l'] == 5
            if not ok:
                ctx.violation('C17:notations-disagree', f'undictify with the keys in the other order / integer parts: {u} for {z}',
                              {'z': [z.real, z.imag], 'document': repr(rev)})
        except Exception as e:  # noqa: BLE001
            ctx.violation(f'C17:undictify-raises-{type(e).__name__}', str(e)[:100], {'document': repr(d)})


def circuit_loader(ctx, rng, quick):
    import circgen
    from dataclasses import asdict
    from CircuitCalculator.Circuit import dump_load as cdl
    from CircuitCalculator.Circuit.circuit import Circuit
    table = list(cdl.circuit_component_translators)
    for kind in table:
        for _ in range(3 if quick else 40):
            ctx.evaluations += 1
            c = circgen.mk_component(rng, kind, rng.choice(['X', 'R1', 'Ω']), 'a', 'b')
            params = dict(c['params'])
            for k in ('Z', 'Y', 'V', 'I'):
                if isinstance(params.get(k), list):
                    params[k] = complex(*params[k])
            desc = {'type': kind, 'id': c['id'], 'nodes': ('a', 'b'), 'value': params}
            before = snapshot(desc)
            rep = {'description': repr(before)}
            ctx.nontriv(['component', kind, repr(sorted(params.items(), key=str))])
            try:
                got = cdl.generate_component(desc)
                want = circgen.impl_component(c)
            except Exception as e:  # noqa: BLE001
                ctx.violation(f'C17:component-kind-does-not-load:{kind}', f'{type(e).__name__}: {str(e)[:120]}', rep)
                continue
            if got != want:
                ctx.violation(f'C17:loaded-component-differs:{kind}', f'{got} vs {want}', rep)
            if not same_struct(desc, before):
                ctx.violation('C17:generate_component-mutates-description', f'{desc}', rep)
    # (informational) Circuit serialize -> deserialize: dictify_circuit writes the value dictionary of the component, not the
    # constructor parameters, so kinds whose value keys differ from their parameters (impedance, complex sources, dc sources) do
    # not come back; the property does not state this round trip (C15 covers schematics), so it is counted, not judged.
    for _ in range(8 if quick else 100):
        comps = [circgen.impl_component(circgen.mk_component(rng, rng.choice(table), f'E{k}', 'a', rng.choice(['b', '0'])))
                 for k in range(rng.randint(1, 4))]
        for fmt in ('json', 'yaml'):
            try:
                cdl.deserialize(cdl.serialize(Circuit(comps), fmt), fmt)
                ctx.count('circuit-serialize-round-trip:ok')
            except Exception as e:  # noqa: BLE001
                ctx.count(f'circuit-serialize-round-trip:{type(e).__name__}')


def run(ctx):
    ctx.trusted = TRUSTED
    ctx.assumptions = ['json/yaml libraries round-trip binary64 numbers exactly']
    if standard_prologue(ctx):
        rng = random.Random(ctx.seed + 17)
        quick = ctx.tier == 'quick'
        network_loader(ctx, rng, quick)
        documents(ctx, rng, quick)
        circuit_loader(ctx, rng, quick)
        try:
            import ldmodel
            ldmodel.correspond_c17(ctx, rng)
        except ImportError:
            ctx.partial.append('model correspondence of the loaders not yet wired (Model/Loaders.v)')
    return RULE


def replay(ctx, obj):
    return run(ctx)
