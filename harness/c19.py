"""C19 — malformed circuits are rejected, not reinterpreted."""
import copy
import random

import numpy as np

import circgen
import circrun
import netgen
from common import standard_prologue

RULE = ('cases = an otherwise valid description with ONE injected fault, the fault placed at every position (pair of positions '
        'for duplicates): duplicate branch ids / component ids (adjacent and non-adjacent, 2 and 3 copies), reference label on no '
        'element, 2 or 3 ground components anywhere, every sign-guarded constructor parameter negative (and the boundary value 0 '
        'accepted) for every component kind, unknown waveform type, unknown element type / missing field in load_network, '
        'generate_component (typed errors) and create_schematic, unknown element and node identifiers queried on every solution '
        'kind (network, DC, complex, time-domain, frequency-domain, transient); plus: an accepted description is stored unaltered. '
        'distinct = distinct (fault class, position, kind); non-trivial = the unfaulted description is accepted')

TRUSTED = [
    'Coq 8.16.1 kernel; extraction (ExtrOcamlBasic only) + hex driver',
    'translator tools/gen_tables.py (constructor guards, loader tables) — fail-closed',
    'exception classes are compared by name',
]


def expect_raises(ctx, key, what, f, rep, classes=None):
    """f must raise; classes: tuple of acceptable exception class names (None: any Exception)"""
    ctx.evaluations += 1
    try:
        r = f()
    except Exception as e:  # noqa: BLE001
        if classes and type(e).__name__ not in classes:
            ctx.violation(key + ':wrong-exception', f'{what}: raised {type(e).__name__}, expected one of {classes}', rep)
        return True
    ctx.violation(key, f'{what}: accepted (returned {str(r)[:80]})', rep)
    return False


def expect_ok(ctx, key, what, f, rep):
    ctx.evaluations += 1
    try:
        return f()
    except Exception as e:  # noqa: BLE001
        ctx.violation(key, f'{what}: rejected with {type(e).__name__}: {str(e)[:100]}', rep)
        return None


def network_faults(ctx, rng, n):
    from CircuitCalculator.Network.network import Network, Branch
    for _ in range(n):
        case = netgen.random_network(rng, max_nodes=5, max_branches=7)
        if len(case['branches']) < 2:
            continue
        brs = [Branch(b['n1'], b['n2'], netgen.impl_element(b)) for b in case['branches']]
        net = expect_ok(ctx, 'C19:valid-network-rejected', 'valid network', lambda: Network(list(brs), case['zero']), {'network': case})
        if net is None:
            continue
        ctx.nontriv(['net', netgen.canon(case)])
        if [id(b) for b in net.branches] != [id(b) for b in brs] or net.node_zero_label != case['zero']:
            ctx.violation('C19:stored-altered', 'Network does not store the given branches unaltered', {'network': case})
        m = len(brs)
        pairs = [(i, j) for i in range(m) for j in range(i + 1, m)]
        for i, j in rng.sample(pairs, min(len(pairs), 6)) + [(0, m - 1)]:
            c2 = copy.deepcopy(case)
            c2['branches'][j]['id'] = c2['branches'][i]['id']
            ctx.count('fault:duplicate-branch-id:' + ('adjacent' if j == i + 1 else 'non-adjacent'))
            expect_raises(ctx, 'C19:duplicate-branch-id-accepted', f'duplicate id at positions {i},{j} of {m}',
                          lambda c2=c2: netgen.impl_network(c2), {'network': c2, 'positions': [i, j]}, ('AmbiguousBranchIDs',))
        if m >= 3:
            c3 = copy.deepcopy(case)
            i, j, k = sorted(rng.sample(range(m), 3))
            c3['branches'][j]['id'] = c3['branches'][k]['id'] = c3['branches'][i]['id']
            ctx.count('fault:triplicate-branch-id')
            expect_raises(ctx, 'C19:duplicate-branch-id-accepted', 'three branches share an id', lambda: netgen.impl_network(c3),
                          {'network': c3}, ('AmbiguousBranchIDs',))
        cz = copy.deepcopy(case)
        cz['zero'] = 'nowhere-node'
        ctx.count('fault:floating-reference')
        expect_raises(ctx, 'C19:floating-reference-accepted', 'reference label touches no element', lambda: netgen.impl_network(cz),
                      {'network': cz}, ('FloatingGroundNode',))
        # unknown identifiers on the network solution
        from CircuitCalculator.Network.NodalAnalysis.bias_point_analysis import nodal_analysis_bias_point_solver
        try:
            sol = nodal_analysis_bias_point_solver(net)
        except Exception:  # noqa: BLE001
            continue
        for q in ('get_voltage', 'get_current', 'get_power'):
            expect_raises(ctx, f'C19:unknown-id-answered:network.{q}', f'{q}("no-such-element")', lambda q=q: getattr(sol, q)('no-such-element'),
                          {'network': case, 'query': q})
        expect_raises(ctx, 'C19:unknown-id-answered:network.get_potential', 'get_potential("no-such-node")',
                      lambda: sol.get_potential('no-such-node'), {'network': case, 'query': 'get_potential'})


GUARDED = {'resistor': ['R'], 'conductance': ['G'], 'capacitor': ['C'], 'inductance': ['L'], 'dc_voltage_source': ['R'],
           'ac_voltage_source': ['R', 'w'], 'periodic_voltage_source': ['R', 'w'], 'dc_current_source': ['G'],
           'ac_current_source': ['G', 'w'], 'periodic_current_source': ['G', 'w'], 'lamp': ['P', 'V_ref'],
           'resistive_load': ['P', 'V_ref']}


def component_faults(ctx, rng, reps):
    for kind, params in GUARDED.items():
        for p in params:
            for _ in range(reps):
                c = circgen.mk_component(rng, kind, 'X', 'a', 'b')
                base = expect_ok(ctx, 'C19:valid-component-rejected', f'{kind}', lambda: circgen.impl_component(c), {'component': c})
                if base is None:
                    continue
                ctx.nontriv(['comp', kind, p, sorted(c['params'].items(), key=str)])
                neg = copy.deepcopy(c)
                neg['params'][p] = -abs(c['params'][p]) if c['params'][p] != 0 else -rng.choice([1e-12, 1.0, 3.5])
                if neg['params'][p] == 0:
                    neg['params'][p] = -1.0
                ctx.count(f'fault:negative:{kind}.{p}')
                expect_raises(ctx, f'C19:negative-accepted:{kind}.{p}', f'{kind}({p}={neg["params"][p]})',
                              lambda: circgen.impl_component(neg), {'component': neg}, ('ValueError',))
                zero = copy.deepcopy(c)
                zero['params'][p] = 0.0
                ctx.count(f'boundary:zero:{kind}.{p}')
                z = expect_ok(ctx, f'C19:zero-rejected:{kind}.{p}', f'{kind}({p}=0)', lambda: circgen.impl_component(zero), {'component': zero})
                if z is not None and float(z.value[p]) != 0.0:
                    ctx.violation('C19:stored-altered', f'{kind}.{p}=0 stored as {z.value[p]}', {'component': zero})
    for kind in ('periodic_voltage_source', 'periodic_current_source'):
        c = circgen.mk_component(rng, kind, 'X', 'a', 'b')
        c['params']['wavetype'] = rng.choice(['square', 'Rect', '', 'cosine', 'noise'])
        ctx.count('fault:unknown-wavetype')
        expect_raises(ctx, f'C19:unknown-wavetype-accepted:{kind}', f'{kind}(wavetype={c["params"]["wavetype"]!r})',
                      lambda: circgen.impl_component(c), {'component': c})
    from CircuitCalculator.SignalProcessing.periodic_functions import periodic_function
    expect_raises(ctx, 'C19:unknown-wavetype-accepted:periodic_function', 'periodic_function("square")', lambda: periodic_function('square'),
                  {'wavetype': 'square'}, ('UnknownWavetype',))
    # stored unaltered
    for kind in circgen.KINDS:
        if kind in ('ground', 'short_circuit'):
            continue
        c = circgen.mk_component(rng, kind, 'X', 'a', 'b')
        try:
            o = circgen.impl_component(c)
        except Exception:  # noqa: BLE001
            continue
        ctx.evaluations += 1
        if o.id != 'X' or tuple(o.nodes) != ('a', 'b') or o.type != kind:
            ctx.violation('C19:stored-altered', f'{kind}: id/nodes/type altered', {'component': c})
        for k, v in c['params'].items():
            if isinstance(v, list):
                re_k, im_k = {'Z': ('R', 'X'), 'Y': ('G', 'B'), 'V': ('V_real', 'V_imag'), 'I': ('I_real', 'I_imag')}[k]
                if (o.value[re_k], o.value[im_k]) != (v[0], v[1]):
                    ctx.violation('C19:stored-altered', f'{kind}.{k}', {'component': c})
            elif o.value.get(k) != v:
                ctx.violation('C19:stored-altered', f'{kind}.{k} stored as {o.value.get(k)!r}', {'component': c})


def circuit_faults(ctx, rng, n):
    from CircuitCalculator.Circuit.circuit import Circuit
    for _ in range(n):
        case = circgen.random_circuit(rng, ground=True)
        comps = case['components']
        base = expect_ok(ctx, 'C19:valid-circuit-rejected', 'valid circuit', lambda: circgen.impl_circuit(case), {'circuit': case})
        if base is None:
            continue
        ctx.nontriv(['circ', [(c['kind'], c['nodes']) for c in comps]])
        objs = [circgen.impl_component(c) for c in comps]
        cc = Circuit(list(objs))
        if [id(x) for x in cc.components] != [id(x) for x in objs]:
            ctx.violation('C19:stored-altered', 'Circuit does not store the given components unaltered', {'circuit': case})
        m = len(comps)
        pairs = [(i, j) for i in range(m) for j in range(i + 1, m)]
        for i, j in rng.sample(pairs, min(len(pairs), 5)) + [(0, m - 1)]:
            c2 = copy.deepcopy(case)
            c2['components'][j]['id'] = c2['components'][i]['id']
            ctx.count('fault:duplicate-component-id:' + ('adjacent' if j == i + 1 else 'non-adjacent'))
            expect_raises(ctx, 'C19:duplicate-component-id-accepted', f'duplicate component id at positions {i},{j} of {m}',
                          lambda c2=c2: circgen.impl_circuit(c2), {'circuit': c2, 'positions': [i, j]}, ('AmbiguousComponentID',))
        for extra in (1, 2):
            c3 = copy.deepcopy(case)
            nodes = sorted({x for c in comps for x in c['nodes']})
            for e in range(extra):
                c3['components'].insert(rng.randrange(len(c3['components']) + 1),
                                        {'kind': 'ground', 'id': f'g{e}', 'nodes': [rng.choice(nodes)], 'params': {}})
            ctx.count(f'fault:{extra + 1}-grounds')
            expect_raises(ctx, 'C19:multiple-grounds-accepted', f'{extra + 1} ground components', lambda c3=c3: circgen.impl_circuit(c3),
                          {'circuit': c3}, ('MultipleGroundNodes',))
        # floating ground: ground component on a node no element touches -> must be rejected when analysed
        c4 = copy.deepcopy(case)
        for c in c4['components']:
            if c['kind'] == 'ground':
                c['nodes'] = ['elsewhere']
        ctx.count('fault:floating-ground')
        def analyse(c4=c4):
            from CircuitCalculator.Circuit.solution import DCSolution
            return DCSolution(circgen.impl_circuit(c4))
        expect_raises(ctx, 'C19:floating-reference-accepted', 'ground on a node that touches no element', analyse, {'circuit': c4},
                      ('FloatingGroundNode',))


def query_faults(ctx, rng, n):
    """unknown identifiers against every solution kind"""
    import ssrun
    from CircuitCalculator.Circuit import solution as sol
    done = 0
    while done < n:
        case = ssrun.gen_circuit(rng)
        if not ssrun.nondegenerate(case):
            continue
        done += 1
        circuit = circgen.impl_circuit(case)
        t = np.linspace(0, 1, 20)
        srcs = ssrun.sources_of(case)
        makers = {
            'DCSolution': lambda: sol.DCSolution(circuit),
            'ComplexSolution': lambda: sol.ComplexSolution(circuit, w=1.0),
            'TimeDomainSolution': lambda: sol.TimeDomainSolution(circuit, w_max=10.0),
            'FrequencyDomainSolution': lambda: sol.FrequencyDomainSolution(circuit, w_max=10.0),
            'TransientSolution': lambda: sol.TransientSolution(circuit, tin=t, input={s: (lambda x: np.ones_like(x)) for s in srcs}),
        }
        for name, mk in makers.items():
            try:
                s = mk()
            except Exception:  # noqa: BLE001
                continue
            ctx.nontriv(['query', name, done])
            for q, arg in (('get_voltage', 'no-such-element'), ('get_current', 'no-such-element'), ('get_power', 'no-such-element'),
                           ('get_potential', 'no-such-node')):
                def call(q=q, arg=arg):
                    r = getattr(s, q)(arg)
                    if callable(r):
                        r = r(np.array([0.1]))
                    return r
                ctx.count(f'query:{name}.{q}')
                expect_raises(ctx, f'C19:unknown-id-answered:{name}.{q}', f'{name}.{q}({arg!r})', call,
                              {'circuit': case, 'solution': name, 'query': q})


def loader_faults(ctx, rng):
    from CircuitCalculator.Network.loaders import load_network
    from CircuitCalculator.Circuit.dump_load import generate_component, undictify_circuit
    good = [{'type': 'resistor', 'id': 'R1', 'N1': '0', 'N2': '1', 'R': 10.0},
            {'type': 'voltage_source', 'id': 'U', 'N1': '1', 'N2': '0', 'V': {'real': 1.0, 'imag': 0.0}},
            {'type': 'conductor', 'id': 'G', 'N1': '1', 'N2': '0', 'G': 0.5}]
    expect_ok(ctx, 'C19:valid-description-rejected', 'valid network description', lambda: load_network(copy.deepcopy(good)), {'description': good})
    for pos in range(len(good)):
        for fault in ('unknown-type', 'missing-id', 'missing-N1', 'missing-type', 'missing-value', 'duplicate-id'):
            d = copy.deepcopy(good)
            if fault == 'unknown-type':
                d[pos]['type'] = 'resistance'
            elif fault == 'missing-id':
                del d[pos]['id']
            elif fault == 'missing-N1':
                del d[pos]['N1']
            elif fault == 'missing-type':
                del d[pos]['type']
            elif fault == 'missing-value':
                for k in ('R', 'V', 'G'):
                    d[pos].pop(k, None)
            elif fault == 'duplicate-id':
                d[pos]['id'] = good[(pos + 1) % len(good)]['id']
            ctx.count('fault:load_network:' + fault)
            expect_raises(ctx, f'C19:load_network-accepts:{fault}', f'load_network with {fault} at position {pos}',
                          lambda d=d: load_network(d), {'description': d, 'position': pos})
    gc = {'id': 'R1', 'type': 'resistor', 'nodes': ('0', '1'), 'value': {'R': 10.0}}
    expect_ok(ctx, 'C19:valid-description-rejected', 'valid component description', lambda: generate_component(dict(gc)), {'description': gc})
    for fault, exc in (('id', 'UnidentifiedComponent'), ('value', 'IncorrectComponentInformation'), ('type', 'IncorrectComponentInformation'),
                       ('nodes', 'IncorrectComponentInformation')):
        d = {k: v for k, v in gc.items() if k != fault}
        ctx.count('fault:generate_component:missing-' + fault)
        expect_raises(ctx, f'C19:generate_component-accepts:missing-{fault}', f'missing {fault}', lambda d=d: generate_component(d),
                      {'description': str(d)}, (exc,))
    d = dict(gc, type='resistance')
    expect_raises(ctx, 'C19:generate_component-accepts:unknown-type', 'unknown type', lambda: generate_component(d), {'description': str(d)},
                  ('UnknownCircuitComponent',))
    d = dict(gc, value={'Q': 1.0})
    expect_raises(ctx, 'C19:generate_component-accepts:wrong-value-key', 'wrong value key', lambda: generate_component(d), {'description': str(d)},
                  ('IncorrectComponentInformation',))
    d = dict(gc, value={'R': -1.0})
    expect_raises(ctx, 'C19:generate_component-accepts:negative', 'negative R through the loader', lambda: generate_component(d),
                  {'description': str(d)}, ('ValueError',))
    for pos in range(3):
        comps = [dict(gc, id=f'R{k}') for k in range(3)]
        comps[pos] = dict(comps[pos], id=comps[(pos + 1) % 3]['id'])
        expect_raises(ctx, 'C19:undictify_circuit-accepts:duplicate-id', f'duplicate id at {pos}',
                      lambda comps=comps: undictify_circuit({'components': comps}), {'description': str(comps)}, ('AmbiguousComponentID',))
    # declarative schematic description
    try:
        from CircuitCalculator.SimpleSimulation.schematic import create_schematic
        ok = {'unit': 3, 'elements': [{'type': 'voltage_source', 'name': 'V', 'V': 1.0, 'direction': 'up'},
                                      {'type': 'resistor', 'name': 'R', 'R': 2.0, 'direction': 'right'},
                                      {'type': 'line', 'direction': 'down'}, {'type': 'line', 'direction': 'left'},
                                      {'type': 'ground'}]}
        expect_ok(ctx, 'C19:valid-description-rejected', 'valid schematic description', lambda: create_schematic(copy.deepcopy(ok)), {'description': ok})
        for pos in range(len(ok['elements'])):
            d = copy.deepcopy(ok)
            d['elements'][pos]['type'] = 'resistance'
            ctx.count('fault:create_schematic:unknown-type')
            # (the schemdraw context manager may replace the library's UnknownCircuitElement by its own error while unwinding)
            expect_raises(ctx, 'C19:create_schematic-accepts:unknown-type', f'unknown element type at {pos}', lambda d=d: create_schematic(d),
                          {'description': d})
            d = copy.deepcopy(ok)
            del d['elements'][pos]['type']
            expect_raises(ctx, 'C19:create_schematic-accepts:missing-type', f'missing type at {pos}', lambda d=d: create_schematic(d),
                          {'description': d})
        d = copy.deepcopy(ok)
        del d['elements'][1]['R']
        expect_raises(ctx, 'C19:create_schematic-accepts:missing-value', 'resistor without R', lambda: create_schematic(d), {'description': d})
    except ImportError as e:
        ctx.partial.append(f'create_schematic not importable here: {e}')


def drawing_faults(ctx):
    """a faulty symbol is rejected wherever it sits in the drawing — also AFTER annotation labels have been drawn (draw, solve, annotate,
    add a symbol, translate again)"""
    import matplotlib.pyplot as plt
    import CircuitCalculator.SimpleCircuit.Elements as elm
    from CircuitCalculator.SimpleCircuit import DiagramSolution as ds
    from CircuitCalculator.SimpleCircuit.DiagramTranslator import circuit_translator
    faults = {'negative-resistance': lambda at: elm.Resistor(R=-5.0, name='Rx').at(at).down(),
              'negative-capacitance': lambda at: elm.Capacitor(C=-1e-6, name='Cx').at(at).down(),
              'duplicate-id': lambda at: elm.Resistor(R=5.0, name='R1').at(at).down(),
              'second-ground': lambda at: elm.Ground(name='g2').at(at)}
    for fault, make in faults.items():
        for labels_first in (False, True):
            ctx.evaluations += 1
            ctx.count(f'fault:drawing:{fault}:' + ('after-labels' if labels_first else 'plain'))
            try:
                d = elm.Schematic(unit=3)
                v = elm.VoltageSource(V=12.0, name='V').up()
                d += v
                r1 = elm.Resistor(R=10.0, name='R1').right()
                d += r1
                r2 = elm.Resistor(R=20.0, name='R2').down()
                d += r2
                d += elm.Line().left()
                d += elm.Ground().at(v.start)
                circuit_translator(d)                         # the drawing is valid so far
                if labels_first:
                    sol = ds.real_solution(d)
                    d += sol.draw_voltage('R1')
                    d += sol.draw_current('R2')
                    d += sol.draw_power('R2')
                d += make(r1.end if fault != 'second-ground' else r2.end)
            except Exception as e:  # noqa: BLE001
                ctx.count(f'fault:drawing:setup-raises-{type(e).__name__}(excluded)')
                plt.close('all')
                continue
            expect_raises(ctx, f'C19:drawing-accepts:{fault}' + (':after-labels' if labels_first else ''),
                          f'{fault} symbol added ' + ('after annotation labels were drawn' if labels_first else 'to a valid drawing'),
                          lambda d=d: circuit_translator(d), {'fault': fault, 'after_labels': labels_first})
            plt.close('all')


def run(ctx):
    ctx.trusted = TRUSTED
    ctx.assumptions = ['network-level elements.resistor/conductor have no sign rule by design (C01 admits all non-zero values); the sign '
                       'clause is read on the component constructors and the loaders that call them']
    if standard_prologue(ctx):
        rng = random.Random(ctx.seed + 19)
        quick = ctx.tier == 'quick'
        network_faults(ctx, rng, 40 if quick else 800)
        component_faults(ctx, rng, 3 if quick else 40)
        circuit_faults(ctx, rng, 30 if quick else 600)
        query_faults(ctx, rng, 6 if quick else 80)
        loader_faults(ctx, rng)
        drawing_faults(ctx)
        try:
            import ldmodel
            ldmodel.correspond_c19(ctx, rng)
        except ImportError:
            ctx.partial.append('model correspondence of constructors/validators not yet wired (Model/Loaders.v)')
    return RULE


def replay(ctx, obj):
    ctx.trusted = TRUSTED
    if standard_prologue(ctx):
        c = obj['case']
        if 'component' in c:
            expect_raises(ctx, obj['key'], 'replay', lambda: circgen.impl_component(c['component']), c)
        elif 'network' in c and 'query' not in c:
            expect_raises(ctx, obj['key'], 'replay', lambda: netgen.impl_network(c['network']), c)
        elif 'circuit' in c and 'solution' not in c:
            expect_raises(ctx, obj['key'], 'replay', lambda: circgen.impl_circuit(c['circuit']), c)
        else:
            run(ctx)
    return RULE
