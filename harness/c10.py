"""C10 — the state-space model is an exact realisation of the circuit."""
import random

import numpy as np

import circgen
import circrun
import netrun
import ssrun
from common import standard_prologue
from exact import spec_solution

RULE = ('cases = random circuits of resistors, capacitors, inductors and ideal DC voltage/current sources (<=4 nodes, 1-2 sources), '
        'element names drawn so that sorted order interleaves kinds (inductor "A" before current source "Is" before voltage source '
        '"Vs", lower/upper case), random listing order, ground anywhere or absent; kept when non-degenerate, decided exactly '
        '(capacitors->voltage sources / inductors->current sources network uniquely solvable; DC network uniquely solvable).  '
        'Checked on the implementation: C(jwI-A)^-1 B + D for every source column and every output (all node potentials, all '
        'element voltages and currents) against an independent exact phasor tableau with that source alone, over a sweep of '
        'frequencies across all time constants incl. w=0 (DC gain); state dimension = #C + #L; capacitor-voltage / inductor-current '
        'output rows are unit vectors; input columns follow `sources`.  Model correspondence: A,B,C,D of the Coq model vs the '
        'implementation.  distinct = distinct (canonical circuit); non-trivial = non-degenerate with >= 1 state')

TRUSTED = [
    'Coq 8.16.1 kernel; extraction (ExtrOcamlBasic only) + hex driver',
    'numpy.linalg.inv / solve assumed backward stable on the (well-conditioned, decided exactly non-singular) matrices met',
    'exact rational phasor tableau of the harness (fractions.Fraction) as the oracle',
    'correspondence harness',
]


def check_case(case):
    """returns (list of (key, what), info)"""
    bad = []
    try:
        m = ssrun.impl_model(case)
    except Exception as e:  # noqa: BLE001
        return [(f'C10:raises-{type(e).__name__}', f'non-degenerate circuit: state_space_model raised {type(e).__name__}: {str(e)[:150]}')], None
    nC = sum(1 for c in case['components'] if c['kind'] == 'capacitor')
    nL = sum(1 for c in case['components'] if c['kind'] == 'inductance')
    n = m['A'].shape[0]
    if n != nC + nL or m['A'].shape != (n, n):
        bad.append(('C10:state-dimension', f'A is {m["A"].shape}, #C+#L = {nC + nL}'))
        return bad, m
    srcs = ssrun.sources_of(case)
    if sorted(m['sources']) != sorted(srcs) or m['B'].shape[1] != len(srcs):
        bad.append(('C10:sources-list', f'sources {m["sources"]} vs circuit sources {srcs}; B has {m["B"].shape[1]} columns'))
        return bad, m
    if not np.all(np.isfinite(m['A'])) or not np.all(np.isfinite(m['B'])) or not np.all(np.isfinite(m['C'])) or not np.all(np.isfinite(m['D'])):
        bad.append(('C10:non-finite-matrices', 'A,B,C,D contain inf/nan for a non-degenerate circuit'))
        return bad, m
    nodes, ids = m['nodes'], m['ids']
    for w in ssrun.sweep(case):
        try:
            H = ssrun.transfer(m, w)
        except np.linalg.LinAlgError:
            pn = ssrun.phasor_network(case, w, active=m['sources'][0])
            ps = spec_solution(pn)
            if ps is None or netrun.mna_cond(pn) > 1e8 or max([abs(complex(x)) for x in ps['phi'].values()] + [0.0]) > 1e8:
                # (near-)resonance of a lossless loop: the phasor problem itself is (nearly) singular — for a 1 x 1 nodal system the condition
                # number says nothing, the size of the exact response to a unit source does (jwC + 1/(jwL) = 1e-21 in exact arithmetic)
                continue
            bad.append(('C10:resolvent-singular', f'jwI - A is singular at w={w} although the phasor problem is well-posed; A = {m["A"].tolist()}'))
            return bad, m
        for k, s in enumerate(m['sources']):
            pn = ssrun.phasor_network(case, w, active=s)
            ex = spec_solution(pn)
            if ex is None or netrun.mna_cond(pn) > 1e8:
                continue      # a purely imaginary natural frequency hit (almost) exactly: the phasor problem itself is singular there
            want = [complex(ex['phi'][x]) for x in nodes] + [complex(ex['v'][i]) for i in ids] + [complex(ex['i'][i]) for i in ids]
            got = H[:, k]
            scale = max([abs(x) for x in want] + [1e-12])
            err = np.abs(np.array(want) - got)
            if np.max(err) > 1e-7 * scale * max(1.0, np.linalg.cond(1j * w * np.eye(n) - m['A']) * 1e-8 if n else 1.0):
                j = int(np.argmax(err))
                lab = (['phi(%s)' % x for x in nodes] + ['v(%s)' % i for i in ids] + ['i(%s)' % i for i in ids])[j]
                key = 'C10:dc-gain' if w == 0 else 'C10:transfer-function'
                bad.append((key, f'{lab} from source {s!r} at w={w}: state-space {got[j]} vs phasor {want[j]}'))
                return bad, m
    # states are the capacitor voltages and inductor currents
    off_v = len(nodes)
    off_i = len(nodes) + len(ids)
    for k, cid in enumerate(m['c_ids']):
        row = m['C'][off_v + ids.index(cid)]
        e = np.zeros(n)
        e[k] = 1
        if np.max(np.abs(row - e)) > 1e-9 or np.max(np.abs(m['D'][off_v + ids.index(cid)])) > 1e-9:
            bad.append(('C10:state-not-capacitor-voltage', f'voltage row of capacitor {cid!r}: C {row} D {m["D"][off_v + ids.index(cid)]}'))
            return bad, m
    for k, lid in enumerate(m['l_ids']):
        row = m['C'][off_i + ids.index(lid)]
        e = np.zeros(n)
        e[len(m['c_ids']) + k] = 1
        if np.max(np.abs(row - e)) > 1e-9 or np.max(np.abs(m['D'][off_i + ids.index(lid)])) > 1e-9:
            bad.append(('C10:state-not-inductor-current', f'current row of inductor {lid!r}: C {row} D {m["D"][off_i + ids.index(lid)]}'))
            return bad, m
    return bad, m


def integer_values(ctx, case):
    """the value dictionaries are data: Python ints (C = 2, L = 3) must give the matrices of the same values given as floats"""
    import copy
    from CircuitCalculator.Circuit.circuit import transform_circuit
    from CircuitCalculator.Network.NodalAnalysis.state_space_model import nodal_state_space_model
    ic = copy.deepcopy(case)
    k = 2
    for c in ic['components']:
        if c['kind'] == 'capacitor':
            c['params']['C'] = float(k)
            k += 1
        if c['kind'] == 'inductance':
            c['params']['L'] = float(k)
            k += 1
    if not ssrun.nondegenerate(ic):
        return
    try:
        circuit, _ = circrun.build_impl(ic)
        net = transform_circuit(circuit, w=0)
        cf = {c.id: float(c.value['C']) for c in circuit.components if c.type == 'capacitor'}
        lf = {c.id: float(c.value['L']) for c in circuit.components if c.type == 'inductance'}
        a = nodal_state_space_model(network=net, c_values=cf, l_values=lf)
        b = nodal_state_space_model(network=net, c_values={i: int(v) for i, v in cf.items()}, l_values={i: int(v) for i, v in lf.items()})
        ctx.count('integer-valued-C-L:circuits')
        for nm in 'ABCD':
            x, y = np.asarray(getattr(a, nm), dtype=float), np.asarray(getattr(b, nm), dtype=float)
            if x.shape != y.shape or np.max(np.abs(x - y), initial=0.0) > 1e-12 * max(1.0, np.max(np.abs(x), initial=0.0)):
                ctx.violation('C10:matrices-depend-on-the-numeric-type-of-the-values', f'{nm} with C, L given as Python ints {y.tolist()} differs from the same '
                              f'values given as floats {x.tolist()}', {'circuit': ic, 'matrix': nm})
                return
    except Exception as e:  # noqa: BLE001
        ctx.violation(f'C10:raises-{type(e).__name__}', f'integer-valued C/L: {str(e)[:100]}', {'circuit': ic})


def element_rows(ctx, case, rng):
    """every element on its OWN scale: in the output equations y = Cx + Du the current row of a resistor must be its voltage row divided by R
    (entry by entry, 1e-9 relative), whatever the other values in the circuit are — one resistor is swapped for a probe-style giga-ohm value
    (its current is tiny compared with everything else, but it is not zero)"""
    import copy
    probe = copy.deepcopy(case)
    rs = [c for c in probe['components'] if c['kind'] == 'resistor']
    if not rs:
        return
    victim = rng.choice(rs)
    victim['params']['R'] = rng.choice(ssrun.R_PROBE)
    if not ssrun.nondegenerate(probe):
        return
    try:
        m = ssrun.impl_model(probe)
    except Exception as e:  # noqa: BLE001
        ctx.violation(f'C10:raises-{type(e).__name__}', f'state_space_model raised on a circuit with a {victim["params"]["R"]:g} ohm resistor: {str(e)[:100]}',
                      {'circuit': probe})
        return
    nout, nid = len(m['nodes']), len(m['ids'])
    CD = np.hstack([m['C'], m['D']])
    ctx.count('element-rows:circuits')
    for r in rs:
        k = m['ids'].index(r['id'])
        v, i = CD[nout + k], CD[nout + nid + k]
        R = r['params']['R']
        if np.max(np.abs(i - v / R)) > 1e-9 * max(np.max(np.abs(v)) / R, 1e-300):
            ctx.violation('C10:resistor-current-row-not-voltage-row-over-R', f'{r["id"]!r} (R = {R:g}): current row {i.tolist()} vs voltage row / R '
                          f'{(v / R).tolist()}', {'circuit': probe, 'element': r['id']})
            return


def swept_twin(case, k):
    """the same topology and names with other capacitances / inductances (a parameter sweep within one session)"""
    import copy
    r = random.Random(k)
    twin = copy.deepcopy(case)
    what = ['R', 'CL', 'all'][(k // 4) % 3]          # which values the sweep changes (a memo may leave any of them out of its key)
    for c in twin['components']:
        if c['kind'] == 'capacitor' and what in ('CL', 'all'):
            c['params']['C'] = r.choice([v for v in ssrun.C_VALUES if v != c['params']['C']])
        if c['kind'] == 'inductance' and what in ('CL', 'all'):
            c['params']['L'] = r.choice([v for v in ssrun.L_VALUES if v != c['params']['L']])
        if c['kind'] == 'resistor' and what in ('R', 'all'):
            c['params']['R'] = r.choice([v for v in ssrun.R_VALUES if v != c['params']['R']])
    return twin


def examine(ctx, cases):
    prev = None
    for origin, case in cases:
        before, prev = prev, case
        ctx.evaluations += 1
        ctx.count('stream:' + origin)
        if not ssrun.nondegenerate(case):
            ctx.count('degenerate(excluded)')
            continue
        nst = sum(1 for c in case['components'] if c['kind'] in ('capacitor', 'inductance'))
        ctx.count(f'states:{nst}')
        ids = [c['id'] for c in case['components'] if c['kind'] != 'ground']
        ctx.count('listing:' + ('sorted' if ids == sorted(ids) else 'unsorted'))
        bad, m = check_case(case)
        for key, what in bad:
            small = ssrun.shrink(case, lambda cc, key=key: ssrun.nondegenerate(cc) and any(k == key for k, _ in check_case(cc)[0]))
            rep = {'circuit': small}
            if origin == 'swept' and before is not None:
                rep['analysed_before'] = before       # matters only if the failure needs the earlier analysis in the same process
            ctx.violation(key, what, rep)
        if nst >= 1:
            ctx.nontriv([(c['kind'], c['id'], c['nodes'], sorted(c['params'].items())) for c in case['components']])
        if ctx.evaluations % 3 == 0:
            element_rows(ctx, case, random.Random(ctx.evaluations))
        if ctx.evaluations % 5 == 0 and nst >= 1:
            integer_values(ctx, case)
        ctx.sample({'circuit': case}, cap=3)
    try:
        import ssmodel
        ssmodel.correspond(ctx, [c for _, c in cases if ssrun.nondegenerate(c)])
    except ImportError:
        ctx.partial.append('model correspondence of A,B,C,D not yet wired (Model/StateSpace.v)')


def gen(ctx, n_quick, n_thorough, seed_off, min_states=0):
    """random circuits; 3 of 4 are re-drawn until non-degenerate (rejection sampling) so that the stream is not
    dominated by excluded cases; the rest is kept as drawn (degenerate ones are counted and skipped)"""
    rng = random.Random(ctx.seed + seed_off)
    out = []
    for k in range(n_quick if ctx.tier == 'quick' else n_thorough):
        c = ssrun.gen_circuit(rng)
        if k % 4:
            for _ in range(40):
                nst = sum(1 for x in c['components'] if x['kind'] in ('capacitor', 'inductance'))
                if nst >= max(min_states, 1) and ssrun.nondegenerate(c):
                    break
                c = ssrun.gen_circuit(rng)
        out.append(('random', c))
        if k % 4 == 1 and any(x['kind'] in ('capacitor', 'inductance') for x in c['components']):
            out.append(('swept', swept_twin(c, k)))
    return out


def run(ctx):
    ctx.trusted = TRUSTED
    ctx.assumptions = ['non-degeneracy decided exactly by the harness as stated in the rule']
    if standard_prologue(ctx):
        examine(ctx, gen(ctx, 160, 4000, 10))
    return RULE


def replay(ctx, obj):
    ctx.trusted = TRUSTED
    if standard_prologue(ctx):
        c = obj['case']
        examine(ctx, ([('replay', c['analysed_before'])] if 'analysed_before' in c else []) + [('swept' if 'analysed_before' in c else 'replay', c['circuit'])])
    return RULE
