"""C04 — linearity and superposition of sources, through the library's own source-zeroing operations."""
import copy
import random

import c01
import netgen
import netrun
from common import standard_prologue
from exact import spec_solution, law_of

RULE = ('cases = well-posed networks from the C01 random stream with >=1 source; each is (a) scaled by a random complex '
        'factor, (b) zeroed completely, (c) decomposed along a random partition of its source set (singletons, halves, '
        'random k blocks) using short_circuitify_voltage_sources/open_circuitify_current_sources(keep=block).  Compared: '
        'potentials, voltages and first->second flows (reported current, sign-corrected for linear sources in *that* '
        'network).  distinct = canonical network + partition; non-trivial = >=2 sources and >=2 non-reference nodes')

TRUSTED = c01.TRUSTED + ['the zeroing operations are called on the implementation; the model of them is compared in C16']


def scale_case(case, a):
    c = copy.deepcopy(case)
    for b in c['branches']:
        if b['ctor'] in ('voltage_source', 'current_source'):
            z = netgen.uncx(b['args'][0]) * a
            b['args'][0] = netgen.cx(z)
    return c


def sources_of(case):
    return [b for b in case['branches'] if b['ctor'] in ('voltage_source', 'current_source') and b['args'][0] != [0.0, 0.0]]


_SHARED = {}
KEEP_DIFFS = []


def shared_network(case):
    """ONE implementation Network object per case: all sub-networks of a decomposition are derived from the same object, the way
    a user loops `for s in sources: ...(network, keep=[s])`; an operation that edits its input then corrupts the later blocks"""
    import json
    key = json.dumps(case, sort_keys=True, default=str)
    if _SHARED.get('key') != key:
        _SHARED.clear()
        _SHARED.update(key=key, net=netgen.impl_network(case))
    return _SHARED['net']


def impl_keep_only(case, block_ids):
    """library zeroing: keep the sources in block_ids, deactivate every other source. returns case-form network"""
    from CircuitCalculator.Network import transformers as trf
    net = shared_network(case)
    keep = [net[i].element for i in block_ids]
    n1 = trf.short_circuitify_voltage_sources(net, keep=keep)
    n2 = trf.open_circuitify_current_sources(n1, keep=keep)
    out = netgen.network_to_case(n2)
    # the sources to keep named by EQUAL elements that are other objects (taken from a second construction of the same network, as a
    # caller who loads the description twice would): the same sources stay
    fresh = netgen.impl_network(case)
    keep2 = [fresh[i].element for i in block_ids]
    out2 = netgen.network_to_case(trf.open_circuitify_current_sources(trf.short_circuitify_voltage_sources(net, keep=keep2), keep=keep2))
    if out2 != out:
        KEEP_DIFFS.append((list(block_ids), out2))
    return out


def flows(case, impl):
    """first->second flow of every branch from the reported currents of *this* network"""
    out = {}
    for b in case['branches']:
        lin = law_of(b)[3]
        out[b['id']] = -impl['i'][b['id']] if lin else impl['i'][b['id']]
    return out


def examine_case(ctx, case, rng):
    exact = spec_solution(case)
    if exact is None:
        ctx.count('ill-posed(excluded)')
        return
    cond = netrun.mna_cond(case)
    if cond > 1e7:
        ctx.count('ill-conditioned(skipped)')
        return
    srcs = sources_of(case)
    if not srcs:
        ctx.count('no-source')
        return
    ctx.evaluations += 1
    ctx.count(f'sources:{min(len(srcs), 6)}')
    base = netrun.impl_solve(case)
    if 'exc' in base:
        ctx.violation('C04:base-raises', f'well-posed network raises {base["exc"]}', {'network': case})
        return
    sv, si, sp = netrun.scales(exact, case)
    tol = max(1e-9, cond * 2e-14) * 16
    # (a) scaling
    a = complex(rng.choice([2, -1, 0.5, 3]), rng.choice([0, 1, -2, 0.5]))
    if rng.random() < 0.25:
        a = complex(rng.choice([1e-13, 2.5e-14, 1e9, -3e-16]), 0)        # the law holds for every factor, tiny and huge ones included
    sc = scale_case(case, a)
    r = netrun.impl_solve(sc)
    if 'exc' in r:
        ctx.violation('C04:scaled-raises', f'scaled network raises {r["exc"]}', {'network': case, 'factor': [a.real, a.imag]})
    else:
        for b in case['branches']:
            i = b['id']
            if abs(r['v'][i] - a * base['v'][i]) > tol * sv * abs(a) or abs(r['i'][i] - a * base['i'][i]) > tol * si * abs(a):
                ctx.violation('C04:scaling', f'scaling sources by {a}: branch {i!r} v {r["v"][i]} vs {a * base["v"][i]}, '
                              f'i {r["i"][i]} vs {a * base["i"][i]}', {'network': case, 'factor': [a.real, a.imag]})
                break
            if abs(r['p'][i] - abs(a) ** 2 * base['p'][i]) > tol * sp * abs(a) ** 2 * 4:
                ctx.violation('C04:scaling-power', f'power of {i!r} does not scale by |a|^2', {'network': case, 'factor': [a.real, a.imag]})
                break
    # (b) all sources deactivated by the library's own operations -> zero solution
    try:
        z = impl_keep_only(case, [])
        rz = netrun.impl_solve(z)
        if 'exc' in rz:
            if spec_solution(z) is not None:
                ctx.violation('C04:zeroed-raises', f'fully deactivated network raises {rz["exc"]}', {'network': case})
        elif any(abs(x) > tol * sv for x in rz['phi'].values()) or any(abs(x) > tol * si for x in rz['i'].values()):
            if spec_solution(z) is not None:
                ctx.violation('C04:zero-solution', 'network with all sources deactivated has a non-zero solution', {'network': case})
    except Exception as e:  # noqa: BLE001
        ctx.violation('C04:zeroing-raises', f'source zeroing raised {type(e).__name__}', {'network': case})
    # (c) superposition along a partition
    ids = [b['id'] for b in srcs]
    rng.shuffle(ids)
    mode = rng.choice(['singletons', 'halves', 'random'])
    if mode == 'singletons' or len(ids) < 2:
        blocks = [[i] for i in ids]
    elif mode == 'halves':
        h = len(ids) // 2
        blocks = [ids[:h], ids[h:]]
    else:
        k = rng.randint(1, len(ids))
        blocks = [[] for _ in range(k)]
        for i in ids:
            blocks[rng.randrange(k)].append(i)
    ctx.count('partition:' + mode)
    base_f = flows(case, base)
    acc_phi = {n: 0 for n in base['phi']}
    acc_v = {b['id']: 0 for b in case['branches']}
    acc_f = {b['id']: 0 for b in case['branches']}
    okblocks = True
    for blk in blocks:
        try:
            sub = impl_keep_only(case, blk)
            if KEEP_DIFFS:
                ctx.violation('C04:sources-to-keep-matched-by-object-identity', f'keep={blk} given as equal elements of a second construction of the '
                              f'network leaves another network than the same list given as the network\'s own element objects',
                              {'network': case, 'block': blk})
                del KEEP_DIFFS[:]
        except Exception as e:  # noqa: BLE001
            ctx.violation('C04:zeroing-raises', f'source zeroing raised {type(e).__name__}', {'network': case, 'block': blk})
            okblocks = False
            break
        if spec_solution(sub) is None:
            ctx.count('sub-network-ill-posed(skipped)')
            okblocks = False
            break
        rs = netrun.impl_solve(sub)
        if 'exc' in rs:
            ctx.violation('C04:sub-network-raises', f'sub-network raises {rs["exc"]}', {'network': case, 'block': blk})
            okblocks = False
            break
        fs = flows(sub, rs)
        for n in acc_phi:
            acc_phi[n] += rs['phi'].get(n, 0)
        for i in acc_v:
            acc_v[i] += rs['v'][i]
            acc_f[i] += fs[i]
    if netgen.network_to_case(shared_network(case))['branches'] != netgen.network_to_case(netgen.impl_network(case))['branches']:
        ctx.violation('C04:zeroing-modifies-its-input', 'the network handed to the source-zeroing operations was modified by them',
                      {'network': case, 'blocks': blocks})
    if okblocks:
        nb = len(blocks) + 1
        for n, x in acc_phi.items():
            if abs(x - base['phi'][n]) > tol * sv * nb:
                ctx.violation('C04:superposition-potential', f'potential of {n!r}: sum {x} vs full {base["phi"][n]}',
                              {'network': case, 'blocks': blocks})
                break
        for i in acc_v:
            if abs(acc_v[i] - base['v'][i]) > tol * sv * nb or abs(acc_f[i] - base_f[i]) > tol * si * nb:
                ctx.violation('C04:superposition-branch', f'branch {i!r}: v sum {acc_v[i]} vs {base["v"][i]}; flow sum {acc_f[i]} vs {base_f[i]}',
                              {'network': case, 'blocks': blocks})
                break
        if len(srcs) >= 2 and netgen.shape(case)['nodes'] >= 3:
            ctx.nontriv([netgen.canon(case), blocks])
    ctx.sample({'network': case, 'blocks': blocks, 'factor': [a.real, a.imag]}, cap=3)


def run(ctx):
    ctx.trusted = TRUSTED
    ctx.assumptions = ['LAPACK backward stability', '"every current" is read as the physical first->second flow: a lossy source that '
                       'the library zeroes changes kind and with it the reporting direction (DESIGN C04)']
    if standard_prologue(ctx):
        rng = random.Random(ctx.seed + 4)
        n = 500 if ctx.tier == 'quick' else 8000
        kinds = ['R', 'G', 'Z', 'Y', 'V', 'I', 'LV', 'LI', 'load', 'R', 'R']
        for _ in range(n):
            case = netgen.random_network(rng, max_nodes=6, max_branches=10, kinds=kinds)
            examine_case(ctx, case, rng)
        for c in netgen.corpus_networks():
            examine_case(ctx, c, rng)
    return RULE


def replay(ctx, obj):
    ctx.trusted = TRUSTED
    if standard_prologue(ctx):
        examine_case(ctx, obj['case']['network'], random.Random(ctx.seed + 4))
    return RULE
