"""C13 — schematic drawings are read as the netlist they depict."""
import copy
import math
import random

import drawgen
from common import standard_prologue

RULE = ('cases = drawing programs over a grid: symbols and wires on the edges of a 1x1..3x3 grid (spanning tree + random extra edges, so '
        'wire rings, stubs, chains and parallel paths occur), every supported two-terminal symbol class (resistor, conductance, impedance, '
        'capacitor, inductor, lamp, switch open/closed, labelled wire, DC/AC/complex/rectangular/triangular/sawtooth voltage and current '
        'sources with either reversal flag), 0-2 node labels (numeric labels that collide with auto-numbering included), 0-1 ground; each '
        'program also rotated by 90/180/270 degrees, translated, drawn with another unit, with subdivided wires and in shuffled insertion '
        'order.  The live schemdraw drawing is translated with circuit_translator and compared with the netlist computed from the program '
        'alone (grid points joined by wires): one component per symbol in drawing order with its identifier, kind and values; terminals '
        'consistent with ONE injective map from wire-connected point classes to node names; labels and ground name the class they sit on; '
        'source polarity start->end, end->start when reversed.  distinct = distinct program; non-trivial = >= 2 wire-joined classes with a wire, '
        '>= 1 source and >= 3 symbols')

TRUSTED = [
    'Coq 8.16.1 kernel (closure/labelling theorems over the drawing model)',
    'schemdraw anchor geometry and the 2-decimal rounding of anchor points are runtime behaviour: the harness uses real schemdraw drawings, '
    'the model takes the rounded anchors read from the live objects',
    'the intended netlist is computed by the harness from the grid program (union-find over wires)',
]


def translated(drawing):
    from CircuitCalculator.SimpleCircuit.DiagramTranslator import circuit_translator
    c = circuit_translator(drawing)
    return [(x.type, x.id, tuple(x.nodes), dict(x.value)) for x in c.components], c.ground_node


def veq(a, b):
    if isinstance(a, str) or isinstance(b, str):
        return a == b
    a, b = complex(a), complex(b)
    if math.isinf(a.real) or math.isinf(b.real):
        return a == b
    return abs(a - b) <= 1e-12 * max(1.0, abs(a), abs(b))


def compare(program, comps, ground):
    """translated circuit vs intended netlist.  Returns list of (key, what)"""
    want = drawgen.intended(program)
    bad = []
    wc = want['components']
    if [c[1] for c in comps] != [c[1] for c in wc]:
        missing = [c[1] for c in wc if c[1] not in [x[1] for x in comps]]
        extra = [c[1] for c in comps if c[1] not in [x[1] for x in wc]]
        bad.append(('C13:component-list-differs', f'translated ids {[c[1] for c in comps]} vs drawn {[c[1] for c in wc]} (missing {missing}, extra {extra})'))
        return bad
    cls2lab, lab2cls = {}, {}
    for (t, i, nodes, val), (wt, wi, wcls, wval) in zip(comps, wc):
        if t != wt:
            bad.append((f'C13:wrong-kind:{wt}', f'{i}: translated as {t}, drawn {wt}'))
            continue
        if len(nodes) != len(wcls):
            bad.append(('C13:wrong-terminal-count', f'{i}: {nodes}'))
            continue
        for lab, cl in zip(nodes, wcls):
            if cls2lab.setdefault(cl, lab) != lab:
                bad.append(('C13:connected-terminals-get-different-nodes', f'{i}: grid class {cl} is named {cls2lab[cl]!r} and {lab!r}: terminals that '
                            f'coincide or are joined by wires must be one node (or the polarity of {i} is swapped)'))
            if lab2cls.setdefault(lab, cl) != cl:
                bad.append(('C13:unconnected-terminals-share-a-node', f'{i}: node {lab!r} is used for the unconnected grid classes {lab2cls[lab]} and {cl}'))
        for k, v in wval.items():
            if k not in val or not veq(val[k], v):
                bad.append((f'C13:wrong-value:{wt}', f'{i}.{k}: translated {val.get(k)!r}, drawn {v!r}'))
        if set(val) - set(wval):
            bad.append((f'C13:wrong-value:{wt}', f'{i}: unexpected value keys {sorted(set(val) - set(wval))}'))
    if bad:
        return bad
    for cl, names in want['labels'].items():
        if cl in cls2lab and len(set(names)) == 1 and cls2lab[cl] != names[0]:
            bad.append(('C13:label-not-on-its-node', f'the node carrying label {names[0]!r} is named {cls2lab[cl]!r}'))
    if want['ground']:
        g = want['ground'][0]
        if g in cls2lab and ground != cls2lab[g]:
            bad.append(('C13:wrong-ground', f'ground node {ground!r}, the ground symbol sits on {cls2lab[g]!r}'))
    elif comps and ground != comps[0][2][0]:
        bad.append(('C13:wrong-ground', f'no ground symbol: reference {ground!r} is not the first terminal {comps[0][2][0]!r}'))
    return bad


def clean(program):
    """drop label/ground symbols that would share a wire-connected class with another label/ground (ambiguous drawings)"""
    cl = drawgen.classes(program)
    seen = set()
    out = copy.deepcopy(program)
    keep = []
    for s in out['symbols']:
        if s['cls'] in ('Ground', 'LabelNode', 'Node'):
            c = cl[tuple(s['p'])]
            if c in seen:
                continue
            seen.add(c)
        keep.append(s)
    out['symbols'] = keep
    return out


def variants(program, rng):
    yield 'as-drawn', program
    if len(program['symbols']) <= 4:
        return            # the single-source sweeps: geometry variants are covered by the random programs
    k = rng.choice([1, 2, 3])
    yield f'rotated-{90 * k}', drawgen.rotate(program, k)
    yield 'translated', drawgen.translate(program, rng.randint(-5, 5), rng.randint(-5, 5))
    yield 'rescaled', drawgen.rescale(program, rng.choice([2, 2.5, 4, 7]))      # below ~1.5 schemdraw cannot fit a source between the points
    yield 'subdivided', drawgen.subdivide(program, rng)
    yield 'reordered', drawgen.reorder(program, rng)
    if has_wire_cycle(program):
        for v in wire_orders(program, rng, 24):
            yield 'wires-reordered(ring)', v


def has_wire_cycle(program):
    rep = {}

    def find(p):
        rep.setdefault(p, p)
        while rep[p] != p:
            p = rep[p]
        return p
    for s in program['symbols']:
        if s['cls'] == 'Line':
            a, b = find(tuple(s['p'])), find(tuple(s['q']))
            if a == b:
                return True
            rep[a] = b
    return False


def wire_orders(program, rng, n):
    """the same drawing with only the wires inserted in another order (the closure must not depend on it)"""
    idx = [k for k, s in enumerate(program['symbols']) if s['cls'] == 'Line']
    for _ in range(n):
        perm = idx[:]
        rng.shuffle(perm)
        out = copy.deepcopy(program)
        for k, j in zip(idx, perm):
            out['symbols'][k] = copy.deepcopy(program['symbols'][j])
        yield out


def shrink(program, pred, max_steps=25):
    cur = copy.deepcopy(program)
    steps, changed = 0, True
    while changed and steps < max_steps:
        changed = False
        for k in range(len(cur['symbols'])):
            cand = copy.deepcopy(cur)
            del cand['symbols'][k]
            steps += 1
            try:
                if cand['symbols'] and pred(cand):
                    cur, changed = cand, True
                    break
            except Exception:  # noqa: BLE001
                pass
    return cur


def keys_of(program):
    try:
        d, _ = drawgen.build(program)
        comps, ground = translated(d)
    except Exception as e:  # noqa: BLE001
        return [f'C13:translation-raises-{type(e).__name__}']
    return [k for k, _ in compare(program, comps, ground)]


def examine(ctx, programs, rng):
    import matplotlib.pyplot as plt
    for program in programs:
        program = clean(program)
        for vname, prog in variants(program, rng):
            ctx.evaluations += 1
            ctx.count('variant:' + vname)
            for s in prog['symbols']:
                ctx.count('symbol:' + s['cls'] + ('(reversed)' if s['reverse'] else ''))
            rep = {'program': prog, 'variant': vname}
            try:
                d, live = drawgen.build(prog)
            except Exception as e:  # noqa: BLE001
                ctx.violation(f'C13:drawing-raises-{type(e).__name__}', f'building the drawing failed: {str(e)[:120]}', rep)
                continue
            try:
                comps, ground = translated(d)
            except Exception as e:  # noqa: BLE001
                key = f'C13:translation-raises-{type(e).__name__}'
                small = shrink(prog, lambda p, key=key: key in keys_of(p))
                cls = sorted({s['cls'] for s in small['symbols']})
                ctx.violation(key + ':' + ','.join(c for c in cls if c.endswith('Source'))[:60], f'circuit_translator raised {type(e).__name__}: {str(e)[:120]}',
                              {'program': small, 'variant': vname})
                continue
            for key, what in compare(prog, comps, ground):
                small = shrink(prog, lambda p, key=key: key in keys_of(p))
                ctx.violation(key, what, {'program': small, 'variant': vname})
                break
            cl = drawgen.classes(prog)
            if len(set(cl.values())) >= 2 and any(s['cls'] == 'Line' for s in prog['symbols']) and \
                    any(s['cls'].endswith('Source') for s in prog['symbols']) and len(prog['symbols']) >= 3:
                ctx.nontriv([prog['symbols'], prog['unit']])
            ctx.sample({'program': prog, 'variant': vname, 'translated': str(comps)[:300]}, cap=2)
            plt.close('all')
    try:
        import drawmodel
        drawmodel.correspond(ctx, programs, rng)
    except ImportError:
        ctx.partial.append('model correspondence of the wire closure / labelling not yet wired (Model/Drawing.v)')


def special_programs():
    """hand-made stress cases: wire ring with a stub, numeric labels colliding with auto-numbering, label on a wire joint"""
    def L(p, q):
        return {'cls': 'Line', 'name': '', 'p': list(p), 'q': list(q), 'reverse': False, 'kw': {}}

    def R(n, p, q, r=10.0):
        return {'cls': 'Resistor', 'name': n, 'p': list(p), 'q': list(q), 'reverse': False, 'kw': {'R': r}}

    def V(n, p, q, v=10.0, rev=False):
        return {'cls': 'VoltageSource', 'name': n, 'p': list(p), 'q': list(q), 'reverse': rev, 'kw': {'V': v}}

    def N(n, p, cls='LabelNode'):
        return {'cls': cls, 'name': n, 'p': list(p), 'q': None, 'reverse': False, 'kw': {}}
    ring = {'unit': 3, 'symbols': [V('V1', (0, 0), (0, 1)), R('R1', (0, 1), (1, 1)), L((1, 1), (2, 1)), L((2, 1), (2, 2)), L((2, 2), (1, 2)),
                                   L((1, 2), (1, 1)), L((2, 2), (3, 2)), R('R2', (3, 2), (3, 0), 20.0), L((3, 0), (0, 0)), N('0', (0, 0), 'Ground')]}
    nums = {'unit': 3, 'symbols': [V('V1', (0, 0), (0, 1)), R('R1', (0, 1), (1, 1)), R('R2', (1, 1), (2, 1), 20.0), R('R3', (2, 1), (3, 1), 30.0),
                                   R('R4', (3, 1), (3, 0), 40.0), L((3, 0), (0, 0)), N('0', (0, 0), 'Ground'), N('4', (1, 1)), N('5', (2, 1))]}
    nums2 = copy.deepcopy(nums)
    nums2['symbols'][-2]['name'] = '2'
    nums2['symbols'][-1]['name'] = '3'
    nums3 = copy.deepcopy(nums)           # a numeric label strictly inside the range of automatic numbers
    nums3['symbols'][-2]['name'] = '2'
    nums3['symbols'][-1]['name'] = '5'
    nums4 = copy.deepcopy(nums)
    nums4['symbols'][-2]['name'] = '6'
    nums4['symbols'][-1]['name'] = '4'
    # switches operated after they were drawn: the intended state is the one they were left in
    sw = []
    for st, ops in (('OPEN', ['toggle']), ('CLOSED', ['toggle']), ('OPEN', ['close']), ('CLOSED', ['open', 'close']), ('OPEN', ['toggle', 'toggle']),
                    ('CLOSED', ['toggle', 'close'])):
        sw.append({'unit': 3, 'symbols': [V('V1', (0, 0), (0, 1)),
                                          {'cls': 'Switch', 'name': 'S1', 'p': [0, 1], 'q': [1, 1], 'reverse': False, 'kw': {'state': st}, 'after': ops},
                                          R('R1', (1, 1), (1, 0)), L((1, 0), (0, 0)), N('0', (0, 0), 'Ground')]})
    return [ring, nums, nums2, nums3, nums4] + sw


def run(ctx):
    ctx.trusted = TRUSTED
    ctx.partial = ['schemdraw geometry (how placement methods produce anchors) and whether 2-decimal rounding identifies the points a drawing '
                   'intends to coincide are runtime facts exercised on live drawings, not modelled']
    if standard_prologue(ctx):
        rng = random.Random(ctx.seed + 13)
        n = 10 if ctx.tier == 'quick' else 300
        progs = special_programs() + [drawgen.random_program(rng, max_cells=2 if ctx.tier == 'quick' or rng.random() < 0.7 else 3) for _ in range(n)]
        # every source class at least once with each reversal flag and, where it has a phase, with a non-zero phase in degrees and in radians
        for k in drawgen.SOURCES:
            for rev, deg in ((False, True), (True, False), (True, True)):
                p = drawgen.random_program(rng, kinds=[k, 'Resistor'], n_sources=1, max_cells=1)
                for s in p['symbols']:
                    if s['cls'] == k:
                        s['reverse'] = rev
                        if 'deg' in s['kw'] and not s['kw'].get('sin'):
                            s['kw']['deg'] = deg
                            s['kw']['phi'] = 30.0 if deg else 0.5
                progs.append(p)
        examine(ctx, progs, rng)
    return RULE


def replay(ctx, obj):
    ctx.trusted = TRUSTED
    if standard_prologue(ctx):
        examine(ctx, [obj['case']['program']], random.Random(0))
    return RULE
