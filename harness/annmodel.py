"""C14 correspondence: the label text the implementation writes (adapter of DiagramSolution.py + Display.py + Utils.py) against
the text of Model/Annotation.v (runner fn 14) for the same reading of the solution object, options and direction — compared as
STRINGS.  Transcendental / rounded operations (abs, angle, phase, + pi/2, degrees, w/2/pi) are handed to the model as exact
rationals for the value as read AND for its negation; the model applies the reverse sign itself and consults the row of the
value it formats."""
import cmath
import math
from fractions import Fraction as F

import common

KINDS = {'real': 1, 'cartesian': 2, 'polar-rad': 2, 'polar-deg': 2}
QUANT = {'voltage': 0, 'current': 1, 'power': 2, 'potential': 3}
EPS = F(1, 2 ** 50)
VARIANTS = [(a, b) for a in (1 - EPS, F(1), 1 + EPS) for b in (1 - EPS, F(1), 1 + EPS) if (a, b) != (1, 1)]


def q(x, s=F(1)):
    x = F(x) * s
    return [x.numerator, x.denominator]


def row(zz, deg, sin, fr):
    import numpy as np
    ang = float(np.angle(zz, deg=deg))
    with np.errstate(divide='ignore'):
        small = bool(np.log10(np.abs(ang)) <= (-2 if deg else -5))
    atext = f'{ang:.2f}' if deg else f'{ang:.4f}'
    ph = cmath.phase(zz)
    half = ph + math.pi / 2
    used = half if sin else ph
    return q(abs(zz), fr) + [1 if small else 0] + common.t_label(atext) + q(ph, fr) + q(half, fr) + q(math.degrees(used), fr)


def tokens(adapter, quantity, reverse, ref, fr=F(1), fi=F(1)):
    """adapter: the DiagramSolution adapter object; ref: what its solution object returns for the quantity"""
    name = type(adapter).__name__
    p = int(getattr(adapter, 'precision', 3))
    polar = bool(getattr(adapter, 'polar', False))
    deg = bool(getattr(adapter, 'deg', False))
    sin = bool(getattr(adapter, 'sin', False))
    hertz = bool(getattr(adapter, 'hertz', False))
    w = float(getattr(adapter.solution, 'w', 0.0))
    a = {'RealNetworkDiagramSolution': 1, 'ComplexNetworkDiagramSolution': 2, 'TimeDomainSteadyStateDiagramSolution': 3,
         'EmptyDiagramSolution': 0}[name]
    z = complex(ref)
    if not (math.isfinite(z.real) and math.isfinite(z.imag)):
        return None
    zneg = -1 * z           # as the adapters compute it (signed zeros matter to cmath.phase)
    zpos = 1 * z
    if z == 0:
        # the negation of an exact zero differs only in the signs of its zeros, which the rational model cannot express (cmath.phase
        # can): both rows are those of the value the adapter formats
        zpos = zneg = complex((-1 if reverse and quantity != 'potential' else 1) * ref)   # ref may be the int 0
    return ([14, a, p, int(polar), int(deg), int(sin), int(hertz)] + q(w, fr) + [QUANT[quantity], int(bool(reverse))]
            + q(z.real, fr) + q(z.real, fr) + q(z.imag, fi)
            + row(zpos, deg, sin, fr) + row(zneg, deg, sin, fr) + q(w / 2 / math.pi, fr))


def decode(toks):
    if not toks or toks[0] != 0:
        return f'MODEL-RESULT{toks[:6]}'
    return ''.join(chr(t) for t in toks[1:])


def correspond(ctx, pending):
    """pending: list of (adapter, quantity, reverse, ref, implementation text, replay object)"""
    lines, keep = [], []
    for ad, quantity, reverse, ref, text, rep in pending:
        t = tokens(ad, quantity, reverse, ref)
        if t is None:
            ctx.count('correspondence:non-finite-reading(not compared)')
            continue
        lines.append(t)
        keep.append((ad, quantity, reverse, ref, text, rep))
    if not lines:
        return
    outs = common.run_model(lines)
    redo = []
    for k, (o, item) in enumerate(zip(outs, keep)):
        ctx.count('correspondence:label-texts-compared')
        if decode(o) != item[4]:
            redo.append((k, decode(o)))
    if not redo:
        return
    # near-tie rule of C18: the binary64 scaling inside the formatter may land on the other side of a decimal tie
    vlines = []
    for k, _ in redo:
        ad, quantity, reverse, ref, text, rep = keep[k]
        for fr, fi in VARIANTS:
            vlines.append(tokens(ad, quantity, reverse, ref, fr, fi))
    vouts = common.run_model(vlines)
    for j, (k, mt) in enumerate(redo):
        ad, quantity, reverse, ref, text, rep = keep[k]
        alts = {decode(o) for o in vouts[j * len(VARIANTS):(j + 1) * len(VARIANTS)]}
        if text in alts:
            ctx.count('correspondence:near-tie-accepted(model re-run with values scaled by 1+-2^-50)')
            continue
        ctx.disagreements.append(rep)
        ctx.violation('correspondence:C14-label-text', f'{type(ad).__name__} {quantity} reverse={reverse}: implementation writes {text!r}, '
                      f'the model {mt!r} for the reading {ref!r}', dict(rep, impl=text, model=mt), kind='obligation')
