"""Circuit cases (Circuit layer): JSON-able descriptions, generators, implementation objects, model tokens,
and an independent declarative reading of every component kind (the phasor law the property states)."""
import cmath
import math
import random
from fractions import Fraction

import numpy as np

from common import t_label, t_q, t_list
import netgen

KINDS = ['resistor', 'conductance', 'capacitor', 'inductance', 'impedance', 'admittance',
         'dc_voltage_source', 'ac_voltage_source', 'complex_voltage_source', 'periodic_voltage_source',
         'dc_current_source', 'ac_current_source', 'complex_current_source', 'periodic_current_source',
         'lamp', 'resistive_load', 'short_circuit', 'ground']          # order = Model/Circuit.v all_kinds
KIND_CODE = {k: i for i, k in enumerate(KINDS)}
WAVES = ['const', 'cos', 'sin', 'rect', 'tri', 'saw']

POS = [1, 2, 3, 5, 10, 20, 50, 100, 1000, 0.5, 0.25, 0.125, 4.5, 47, 330, 2.2e3, 1e-3, 4.7e-6, 1e-4, 0.1]
FREQS = [1.0, 2.0, 8.0, 50.0, 100.0, 0.5, 314.0, 1000.0, 2 * math.pi * 50, 0.1, 0.3, 5000.0]
PHASES = [0.0, 0.5, 1.0, -1.0, math.pi / 2, math.pi, 2.5, -0.25, 7.0]


def cx(z):
    z = complex(z)
    return [z.real, z.imag]


def rnd_pos(rng):
    return float(rng.choice(POS))


def mk_component(rng, kind, cid, n1, n2, allow_zero_internal=True):
    p = {}
    if kind == 'resistor':
        p = {'R': rnd_pos(rng)}
    elif kind == 'conductance':
        p = {'G': rnd_pos(rng)}
    elif kind == 'capacitor':
        p = {'C': rnd_pos(rng) * 1e-3}
    elif kind == 'inductance':
        p = {'L': rnd_pos(rng) * 1e-2}
    elif kind == 'impedance':
        p = {'Z': cx(complex(rnd_pos(rng), rng.choice([-1, 1]) * rnd_pos(rng)))}
    elif kind == 'admittance':
        p = {'Y': cx(complex(rnd_pos(rng), rng.choice([-1, 1]) * rnd_pos(rng)))}
    elif kind == 'dc_voltage_source':
        p = {'V': rng.choice([-1, 1]) * rnd_pos(rng), 'R': 0.0 if rng.random() < 0.6 else rnd_pos(rng)}
    elif kind == 'ac_voltage_source':
        p = {'V': rng.choice([-1, 1]) * rnd_pos(rng), 'R': 0.0 if rng.random() < 0.6 else rnd_pos(rng),
             'w': rng.choice(FREQS), 'phi': rng.choice(PHASES)}
    elif kind == 'complex_voltage_source':
        p = {'V': cx(complex(rnd_pos(rng), rng.choice([-1, 0, 1]) * rnd_pos(rng))),
             'Z': cx(0 if rng.random() < 0.5 else complex(rnd_pos(rng), rng.choice([-1, 0, 1]) * rnd_pos(rng)))}
    elif kind == 'periodic_voltage_source':
        p = {'wavetype': rng.choice(WAVES), 'V': rng.choice([-1, 1]) * rnd_pos(rng), 'w': rng.choice(FREQS),
             'phi': rng.choice(PHASES), 'R': 0.0 if rng.random() < 0.7 else rnd_pos(rng)}
    elif kind == 'dc_current_source':
        p = {'I': rng.choice([-1, 1]) * rnd_pos(rng), 'G': 0.0 if rng.random() < 0.6 else rnd_pos(rng)}
    elif kind == 'ac_current_source':
        p = {'I': rng.choice([-1, 1]) * rnd_pos(rng), 'G': 0.0 if rng.random() < 0.6 else rnd_pos(rng),
             'w': rng.choice(FREQS), 'phi': rng.choice(PHASES)}
    elif kind == 'complex_current_source':
        p = {'I': cx(complex(rnd_pos(rng), rng.choice([-1, 0, 1]) * rnd_pos(rng))),
             'Y': cx(0 if rng.random() < 0.5 else complex(rnd_pos(rng), rng.choice([-1, 0, 1]) * rnd_pos(rng)))}
    elif kind == 'periodic_current_source':
        p = {'wavetype': rng.choice(WAVES), 'I': rng.choice([-1, 1]) * rnd_pos(rng), 'w': rng.choice(FREQS),
             'phi': rng.choice(PHASES), 'G': 0.0 if rng.random() < 0.7 else rnd_pos(rng)}
    elif kind in ('lamp', 'resistive_load'):
        p = {'P': rnd_pos(rng), 'V_ref': rnd_pos(rng)}
    elif kind == 'short_circuit':
        p = {}
    elif kind == 'ground':
        return {'kind': 'ground', 'id': cid, 'nodes': [n1], 'params': {}}
    else:
        raise ValueError(kind)
    return {'kind': kind, 'id': cid, 'nodes': [n1, n2], 'params': p}


PASSIVE = ['resistor', 'resistor', 'conductance', 'capacitor', 'inductance', 'impedance', 'admittance', 'lamp',
           'resistive_load']
SOURCES = ['dc_voltage_source', 'ac_voltage_source', 'complex_voltage_source', 'periodic_voltage_source',
           'dc_current_source', 'ac_current_source', 'complex_current_source', 'periodic_current_source']


def random_circuit(rng, max_nodes=5, max_extra=4, kinds_passive=None, kinds_source=None, pool_labels=True,
                   ground=None, n_sources=None):
    kp = kinds_passive or PASSIVE
    ks = kinds_source or SOURCES
    nn = rng.randint(2, max_nodes)
    nodes = rng.sample(netgen.NODE_POOL, nn) if pool_labels and rng.random() < 0.6 else [str(i) for i in range(nn)]
    order = list(nodes)
    rng.shuffle(order)
    edges = [(order[i], order[rng.randrange(i)]) for i in range(1, nn)]
    for _ in range(rng.randint(0, max_extra)):
        if edges and rng.random() < 0.25:
            edges.append(rng.choice(edges))
        else:
            edges.append(tuple(rng.sample(nodes, 2)))
    edges = [(a, b) if rng.random() < 0.5 else (b, a) for a, b in edges]
    rng.shuffle(edges)
    ns = n_sources if n_sources is not None else rng.randint(1, min(3, len(edges)))
    src_pos = set(rng.sample(range(len(edges)), min(ns, len(edges))))
    ids = rng.sample(netgen.ID_POOL, len(edges)) if pool_labels and rng.random() < 0.6 and len(edges) <= len(netgen.ID_POOL) else None
    comps = []
    for k, (a, b) in enumerate(edges):
        kind = rng.choice(ks) if k in src_pos else rng.choice(kp)
        cid = ids[k] if ids else f'{kind[:2]}{k}'
        comps.append(mk_component(rng, kind, cid, a, b))
    g = ground if ground is not None else rng.random() < 0.7
    if g:
        comps.insert(rng.randrange(len(comps) + 1), {'kind': 'ground', 'id': 'gnd', 'nodes': [rng.choice(nodes)], 'params': {}})
    return {'components': comps}


# ------------------------------------------------------------------ implementation objects
def impl_component(c):
    from CircuitCalculator.Circuit import components as ccp
    p = dict(c['params'])
    for k in ('Z', 'Y'):
        if k in p and isinstance(p[k], list):
            p[k] = complex(*p[k])
    if c['kind'] in ('complex_voltage_source', 'complex_current_source'):
        for k in ('V', 'I'):
            if k in p and isinstance(p[k], list):
                p[k] = complex(*p[k])
    if c['kind'] == 'ground':
        return ccp.ground(id=c['id'], nodes=tuple(c['nodes']))
    if c['kind'] == 'short_circuit':
        return ccp.short_circuit(id=c['id'], nodes=tuple(c['nodes']))
    return getattr(ccp, c['kind'])(id=c['id'], nodes=tuple(c['nodes']), **p)


def impl_circuit(case):
    from CircuitCalculator.Circuit.circuit import Circuit
    return Circuit([impl_component(c) for c in case['components']])


# ------------------------------------------------------------------ independent harmonic formulas (oracle data)
def harmonic(wave, A, phi, off, n):
    """(amplitude, phase) of harmonic n >= 0 of the six waveforms — written from the textbook series, independently
    of periodic_functions.py (cross-checked there by C08)."""
    if wave == 'const':
        return (A, 0.0) if n == 0 else (0.0, 0.0)
    if n == 0:
        return (off, 0.0)
    if wave == 'cos':
        return (A, phi) if n == 1 else (0.0, 0.0)
    if wave == 'sin':
        return (A, phi - math.pi / 2) if n == 1 else (0.0, 0.0)
    if wave == 'rect':
        return (4 * A / (n * math.pi), n * phi - math.pi / 2) if n % 2 else (0.0, 0.0)
    if wave == 'tri':
        return (8 * A / (n * n * math.pi * math.pi), n * phi) if n % 2 else (0.0, 0.0)
    if wave == 'saw':
        return (-2 * A / (n * math.pi), n * phi - math.pi / 2)
    raise ValueError(wave)


# ------------------------------------------------------------------ model tokens
def tok_component(c, impl_comp, w):
    """tokens of a component: the value dictionary is taken from the implementation's own Component object (the
    constructors are C19's subject; here the translators are), oracle data from numpy."""
    v = impl_comp.value
    vals = [(k, float(x)) for k, x in v.items() if not isinstance(x, str)]
    wave = v.get('wavetype', '') if isinstance(v.get('wavetype', ''), str) else ''
    phi = float(v.get('phi', 0.0))
    cs = (float(np.cos(phi)), float(np.sin(phi)))
    harm = []
    if c['kind'] in ('periodic_voltage_source', 'periodic_current_source') and w is not None and float(v.get('w', 0)) != 0 \
            and wave in WAVES:
        w0 = float(v['w'])
        n0 = int(np.round(w / w0))
        A = float(v['V'] if 'V' in v else v['I'])
        for n in {max(n0 - 1, 0), n0, n0 + 1}:
            a, ph = harmonic(wave, A, phi, 0.0, n)
            harm.append((n, float(a), float(np.cos(ph)), float(np.sin(ph))))
    t = [KIND_CODE[c['kind']]] + t_label(impl_comp.id) + t_list(list(impl_comp.nodes), t_label)
    t += t_list(vals, lambda kv: t_label(kv[0]) + t_q(kv[1]))
    t += t_label(wave) + t_q(cs[0]) + t_q(cs[1])
    t += t_list(harm, lambda h: [h[0]] + t_q(h[1]) + t_q(h[2]) + t_q(h[3]))
    return t


def tok_circuit(case, impl_comps, w):
    return t_list(list(zip(case['components'], impl_comps)), lambda ci: tok_component(ci[0], ci[1], w))


# ------------------------------------------------------------------ declarative reading (the property's own words)
def expected_branch(c, w, res):
    """the network branch the property prescribes for component c at angular frequency w, as a netgen case-branch
    (exact rational values of the given floats); None for ground."""
    k = c['kind']
    p = c['params']
    if k == 'ground':
        return None
    b = {'id': c['id'], 'n1': c['nodes'][0], 'n2': c['nodes'][1]}
    F = Fraction

    def cplx(x):
        return [x[0], x[1]] if isinstance(x, list) else [float(x), 0.0]
    if k == 'resistor':
        b.update(ctor='resistor', args=[[p['R'], 0.0]])
    elif k == 'conductance':
        b.update(ctor='conductor', args=[[p['G'], 0.0]])
    elif k == 'impedance':
        b.update(ctor='impedance', args=[cplx(p['Z'])])
    elif k == 'admittance':
        b.update(ctor='admittance', args=[cplx(p['Y'])])
    elif k == 'capacitor':
        b.update(ctor='admittance', args_exact=[(F(0), F(w) * F(p['C']))])
    elif k == 'inductance':
        b.update(ctor='impedance', args_exact=[(F(0), F(w) * F(p['L']))])
    elif k in ('lamp', 'resistive_load'):
        b.update(ctor='conductor', args_exact=[(F(p['P']) / (F(p['V_ref']) ** 2), F(0))])
    elif k == 'short_circuit':
        b.update(ctor='short_circuit', args=[])
    elif k in ('dc_voltage_source', 'ac_voltage_source'):
        ws = p.get('w', 0.0)
        if abs(F(w) - F(ws)) > F(res):
            b.update(ctor='short_circuit', args=[])
        else:
            ph = p.get('phi', 0.0)
            b.update(ctor='voltage_source', args_exact=[(F(p['V']) * F(float(np.cos(ph))), F(p['V']) * F(float(np.sin(ph)))),
                                                        (F(p['R']), F(0))])
    elif k in ('dc_current_source', 'ac_current_source'):
        ws = p.get('w', 0.0)
        if abs(F(w) - F(ws)) > F(res):
            b.update(ctor='open_circuit', args=[])
        else:
            ph = p.get('phi', 0.0)
            b.update(ctor='current_source', args_exact=[(F(p['I']) * F(float(np.cos(ph))), F(p['I']) * F(float(np.sin(ph)))),
                                                        (F(p['G']), F(0))])
    elif k == 'complex_voltage_source':
        b.update(ctor='voltage_source', args=[cplx(p['V']), cplx(p['Z'])])
    elif k == 'complex_current_source':
        b.update(ctor='current_source', args=[cplx(p['I']), cplx(p['Y'])])
    elif k in ('periodic_voltage_source', 'periodic_current_source'):
        w0 = p['w']
        q = F(w) / F(w0)
        n = round(q)            # Fraction.__round__: ties to even
        V = k == 'periodic_voltage_source'
        if abs(q - n) > F(res) / F(w0):
            b.update(ctor='short_circuit' if V else 'open_circuit', args=[])
        else:
            a, ph = harmonic(p['wavetype'], p['V'] if V else p['I'], p['phi'], 0.0, n)
            val = (F(float(a)) * F(float(np.cos(ph))), F(float(a)) * F(float(np.sin(ph))))
            # internal resistance / conductance of the periodic source itself
            inner = (F(p['R'] if V else p['G']), F(0))
            b.update(ctor='voltage_source' if V else 'current_source', args_exact=[val, inner])
    else:
        raise ValueError(k)
    if 'args_exact' in b:
        b['args'] = [[float(x[0]), float(x[1])] for x in b['args_exact']]
    return b


def expected_ground(case):
    comps = case['components']
    g = [c['nodes'][0] for c in comps if c['kind'] == 'ground']
    return g[0] if g else (comps[0]['nodes'][0] if comps else '')


def expected_network(case, w, res=1e-3):
    brs = [expected_branch(c, w, res) for c in case['components']]
    return {'zero': expected_ground(case), 'branches': [b for b in brs if b is not None]}
