"""C09 — multi-frequency steady state is the superposition of single-frequency solutions."""
import math
import random

import numpy as np

import c07
import circgen
import circrun
import netrun
from common import standard_prologue
from exact import spec_solution

RULE = ('cases = (circuit, w_max): random RLC circuits (<=4 nodes) with a mix of DC, sinusoidal and periodic sources; source '
        'frequencies drawn so that some coincide exactly, some coincide only up to rounding (0.3 vs 3*0.1) and some are '
        'unrelated; w_max between harmonics; plus a stream of periodic sources with fundamentals that are not exactly representable (0.1, 0.7, 100*pi, 1/3, ...) and w_max on / next to '
        'a rounded multiple k*w0, compared BIT FOR BIT with the binary64 instance of the model function (Model/FreqFloat.v, vm_compute).  Checked: frequency_components vs the model\'s exact list (Coq) and vs the declared '
        'set (sorted, each source frequency and harmonic k*w0 <= w_max once, no two entries within the frequency resolution); '
        'every spectral line of FrequencyDomainSolution (one- and two-sided) vs the model\'s ComplexSolution(w_k, peak) and vs an '
        'independent exact phasor tableau; TimeDomainSolution.get_*(id)(t) at random instants vs sum_k |X_k| cos(w_k t + arg X_k); '
        'KCL at instants in the first periods, at negative times and up to 40 periods of the slowest line away; sum of the time functions with each source alone.  distinct = distinct (canonical circuit, '
        'w_max); non-trivial = >= 2 analysed frequencies and every single-frequency network well-posed')

TRUSTED = c07.TRUSTED + ['numpy.linalg.solve backward stable; np.abs/np.angle/np.cos as a polar decomposition X = |X| cis(arg X)',
                        'binary64 instance of frequency_components (Model/FreqFloat.v): Coq primitive floats and 63-bit integers (kernel primitives '
                        'PrimFloat.*, PrimInt63.*: listed by Print Assumptions, implemented by the kernel / vm_compute on the host FPU), evaluated by '
                        'coqc on a generated cases file and compared bit for bit with circuit.py; the printed decimal form of a float is parsed back '
                        'with Python float()']
RES = 1e-3


def gen_case(rng):
    nsrc = rng.randint(1, 3)
    case = circgen.random_circuit(rng, max_nodes=4, max_extra=2, n_sources=nsrc,
                                  kinds_source=['dc_voltage_source', 'ac_voltage_source', 'periodic_voltage_source',
                                                'dc_current_source', 'ac_current_source', 'periodic_current_source',
                                                'ac_voltage_source', 'periodic_voltage_source'],
                                  kinds_passive=['resistor', 'resistor', 'capacitor', 'inductance', 'conductance', 'impedance'])
    base = rng.choice([1.0, 0.5, 2.0, 0.1, 0.1, 50.0])
    style = rng.random()
    for c in case['components']:
        p = c['params']
        if 'w' in p:
            if c['kind'].startswith('periodic'):
                p['w'] = base
            elif style < 0.35:
                p['w'] = base * rng.choice([1, 2, 3])             # bit-exact coincidence with a harmonic (dyadic base) or near (0.1)
            elif style < 0.7 and base == 0.1:
                p['w'] = 0.3                                         # 0.3 vs 3*0.1 = 0.30000000000000004
            else:
                p['w'] = rng.choice(circgen.FREQS)
    # distinct frequencies that a RELATIVE comparison would merge (1000 and 1000.005 rad/s: 5 resolutions apart, 5e-6 relative)
    if rng.random() < 0.15:
        acs = [c for c in case['components'] if c['kind'] in ('ac_voltage_source', 'ac_current_source')]
        if len(acs) >= 2:
            w_big = rng.choice([1000.0, 5000.0, 2000.0])
            acs[0]['params']['w'] = w_big
            acs[1]['params']['w'] = w_big + 0.005
    # one slow line below the frequency resolution itself (w = 5e-4 rad/s with nothing at DC): still a positive frequency, with its own
    # -w line in the two-sided spectrum
    srcs = [c for c in case['components'] if 'w' in c['params'] or c['kind'].startswith('dc_')]
    if srcs and all(c['kind'] in ('ac_voltage_source', 'ac_current_source') for c in srcs) and rng.random() < 0.3:
        slow = rng.choice([5e-4, 2.0 ** -11, 1e-3])
        for c in srcs:
            c['params']['w'] = slow
    wmax = base * (rng.randint(0, 5) + 0.5)
    if base in (1.0, 0.5, 2.0, 50.0) and rng.random() < 0.4:
        wmax = base * rng.randint(0, 5)          # w_max exactly on a harmonic (k*w0 <= w_max includes it); exact in binary64 for these bases
    return case, wmax


def expected_frequencies(case, wmax):
    from fractions import Fraction as F
    ws = set()
    for c in case['components']:
        p = c['params']
        if c['kind'] in ('dc_voltage_source', 'dc_current_source'):
            ws.add(F(0))
        elif c['kind'] in ('ac_voltage_source', 'ac_current_source'):
            ws.add(F(p['w']))
        elif c['kind'].startswith('periodic'):
            k = 0
            while k * F(p['w']) <= F(wmax):
                ws.add(k * F(p['w']))
                k += 1
    return sorted(ws)


def phasors(case, w):
    """independent exact phasor solution at w (peak), or None"""
    exp = circgen.expected_network(case, w, RES)
    sol = spec_solution(exp)
    if sol is None:
        return None, exp, float('inf')
    return sol, exp, netrun.mna_cond(exp)


def lossy_multi(case, ws):
    """the known convention switch: a lossy source is reported in generator direction at its own frequency and (as a
    short/open circuit) in passive direction at every other analysed frequency"""
    if len(ws) < 2:
        return False
    for c in case['components']:
        p = c['params']
        if c['kind'].endswith('voltage_source') and p.get('R', 0) != 0:
            return True
        if c['kind'].endswith('current_source') and p.get('G', 0) != 0:
            return True
    return False


def examine(ctx, cases, n_near=0):
    fjobs, impl_lists, built = [], [], []
    for case, wmax in cases:
        try:
            circuit, comps = circrun.build_impl(case)
        except Exception as e:  # noqa: BLE001
            built.append(None)
            impl_lists.append({'exc': type(e).__name__})
            continue
        built.append((circuit, comps))
        from CircuitCalculator.Circuit.circuit import frequency_components
        try:
            impl_lists.append({'ws': [float(x) for x in frequency_components(circuit, wmax)]})
        except Exception as e:  # noqa: BLE001
            impl_lists.append({'exc': type(e).__name__})
        fjobs.append((case, comps, wmax))
    mlists = iter(circrun.model_frequencies(fjobs))
    # bit-exact run of the same generic model function at binary64 (Model/FreqFloat.v), incl. a stream of w_max values on and next to
    # rounded multiples of fundamentals that are not exactly representable
    import freqfloat
    fj, it = [], iter(fjobs)
    for k, (case, wmax) in enumerate(cases):
        if built[k] is None:
            continue
        _, comps, _ = next(it)
        fj.append((built[k][0].components, wmax, impl_lists[k].get('ws'), {'circuit': case, 'w_max': wmax}))
    freqfloat.correspond(ctx, fj, random.Random(ctx.seed + 909), n_near)
    line_jobs, line_ix = [], []
    for k, (case, wmax) in enumerate(cases):
        ctx.evaluations += 1
        if built[k] is None:
            ctx.count('construct-refused')
            continue
        circuit, comps = built[k]
        il = impl_lists[k]
        ml = next(mlists)
        rep = {'circuit': case, 'w_max': wmax}
        # ---- correspondence of the list
        if 'exc' in il or ml[0] != 'ok':
            if ('exc' in il) != (ml[0] != 'ok') or ('exc' in il and il['exc'] != ml[1]):
                ctx.violation('correspondence:C09-frequency_components', f'impl {il} model {ml}', rep, kind='obligation')
            continue
        # the model lists exact products w*k; the implementation's binary64 products are their correctly rounded values and
        # are merged bit-wise: round, merge, sort (part of the stated comparison: the rounding itself is not modelled)
        mws = sorted(set(float(x) for x in ml[1]))
        if len(mws) != len(il['ws']) or any(abs(a - b) > 1e-12 * max(1.0, abs(b)) for a, b in zip(il['ws'], mws)):
            ctx.violation('correspondence:C09-frequency_components', f'impl {il["ws"]} model {mws}', rep, kind='obligation')
        # ---- oracle on the list
        ws = il['ws']
        exp = [float(x) for x in expected_frequencies(case, wmax)]
        if ws != sorted(ws):
            ctx.violation('C09:frequencies-not-sorted', f'{ws}', rep)
        merged = []
        for x in exp:
            if not merged or x - merged[-1] > RES:
                merged.append(x)
        near = [(a, b) for a, b in zip(ws, ws[1:]) if b - a <= RES]
        if near:
            if any(a == b for a, b in near):
                ctx.violation('C09:frequency-listed-twice', f'the same frequency is listed twice: {ws}', rep)
            else:
                ctx.violation('C09:frequencies-within-resolution-not-merged',
                              f'frequencies {near[0]} are distinct binary64 values within the resolution {RES} of one another: '
                              f'both are analysed, with every source near them active in both networks (line counted twice)', rep)
        elif len(ws) != len(merged) or any(abs(a - b) > 1e-9 * max(1.0, abs(b)) for a, b in zip(ws, merged)):
            ctx.violation('C09:wrong-frequency-list', f'impl {ws} expected {merged}', rep)
        ctx.count(f'frequencies:{min(len(ws), 8)}')
        if near or not ws or len(ws) != len(merged):
            continue
        # ---- spectral lines / time functions
        sols = [phasors(case, w) for w in ws]
        if any(s[0] is None or s[2] > 1e7 for s in sols):
            ctx.count('some-frequency-ill-posed(excluded)')
            continue
        if len(ws) >= 2:
            ctx.nontriv([[(c['kind'], c['nodes'], sorted(c['params'].items(), key=str)) for c in case['components']], wmax])
        ctx.sample(rep, cap=3)
        ids = [b['id'] for b in sols[0][1]['branches']]
        nodes = sorted(sols[0][0]['phi'])
        amp = max([abs(c['params'].get('V', 0)) for c in case['components']] + [abs(c['params'].get('I', 0)) for c in case['components']] + [0.0])
        scale_v = max(max(max(abs(complex(x)) for x in s[0]['phi'].values()) for s in sols), 1e-9 * amp, 1e-300)     # floor: an all-zero solution
        # the solved vector mixes potentials with the currents of ideal shorts (an inductor at w = 0): a backward-stable solve leaves an error
        # relative to the largest of them, also on voltages that are exactly zero (netrun.scales, as in C01 / C02)
        scale_v = max([scale_v] + [netrun.scales(s[0], s[1])[0] for s in sols])
        scale_i = max(netrun.scales(s[0], s[1])[1] for s in sols)
        cond = max(s[2] for s in sols)
        tol = max(1e-8, cond * 1e-13) * len(ws)
        from CircuitCalculator.Circuit.solution import TimeDomainSolution, FrequencyDomainSolution
        # FrequencyDomainSolution, one-sided
        try:
            fd = FrequencyDomainSolution(circuit, w_max=wmax)
            for i in ids:
                wv, X = fd.get_voltage(i)
                _, I = fd.get_current(i)
                for kk, s in enumerate(sols):
                    if abs(X[kk] - complex(s[0]['v'][i])) > tol * scale_v or abs(I[kk] - complex(s[0]['i'][i])) > tol * scale_i:
                        ctx.violation('C09:wrong-spectral-line', f'{i!r} at w={ws[kk]}: V {X[kk]} I {I[kk]} vs exact '
                                      f'{complex(s[0]["v"][i])} {complex(s[0]["i"][i])}', rep)
                        break
            for nlab in nodes:
                _, P = fd.get_potential(nlab)
                for kk, s in enumerate(sols):
                    if abs(P[kk] - complex(s[0]['phi'][nlab])) > tol * scale_v:
                        ctx.violation('C09:wrong-spectral-line', f'potential of {nlab!r} at w={ws[kk]}: {P[kk]} vs exact {complex(s[0]["phi"][nlab])}', rep)
                        break
            for kk, w in enumerate(ws):
                line_jobs.append((case, comps, w, True))
                line_ix.append((k, kk, fd, ids, scale_v, scale_i, tol, rep))
        except Exception as e:  # noqa: BLE001
            ctx.violation(f'C09:FrequencyDomainSolution-raises-{type(e).__name__}', f'one-sided: {e}', rep)
        # two-sided
        try:
            fd2 = FrequencyDomainSolution(circuit, w_max=wmax, one_sided=False)
            two_sided = [(fd2.get_voltage, 'v', i, scale_v) for i in ids[:3]] + [(fd2.get_current, 'i', i, scale_i) for i in ids[:3]] + \
                [(fd2.get_potential, 'phi', n, scale_v) for n in nodes[:2]]
            for getter, key, i, sc2 in two_sided:
                wv, X = getter(i)
                want = {}
                for kk, s_ in enumerate(sols):
                    xk = complex(s_[0][key][i])
                    if ws[kk] == 0:
                        want[0.0] = xk
                    else:
                        want[ws[kk]] = xk / 2
                        want[-ws[kk]] = xk.conjugate() / 2
                got = {float(a): complex(b) for a, b in zip(wv, X)}
                ok = sorted(got) == sorted(want) and list(wv) == sorted(wv) and len(got) == len(wv) and \
                    all(abs(got[a] - want[a]) <= tol * sc2 for a in want)
                if not ok:
                    ctx.violation('C09:two-sided-spectrum-wrong', f'{getter.__name__}({i!r}): w {list(wv)} X {list(X)}; expected {want}', rep)
                    break
        except Exception as e:  # noqa: BLE001
            ctx.violation(f'C09:two-sided-spectrum-raises-{type(e).__name__}', f'FrequencyDomainSolution(one_sided=False): {e}', rep)
        # TimeDomainSolution
        try:
            td = TimeDomainSolution(circuit, w_max=wmax)
            rng = random.Random(len(ids) * 7919 + int(wmax * 1000))
            ts = [rng.uniform(0, 20 / max(ws[-1], 0.05)) for _ in range(3)]
            # "all evaluation times": negative instants and instants many periods of the slowest line away from the origin
            pos = [x for x in ws if x > 0]
            T_low = 2 * np.pi / pos[0] if pos else 1.0
            ts += [rng.uniform(-3 * T_low, 0), rng.uniform(T_low, 12 * T_low), rng.uniform(12 * T_low, 40 * T_low)]
            ts = np.array(ts)

            def tf(X):
                return sum(abs(complex(x)) * np.cos(w * ts + np.angle(complex(x))) for x, w in zip(X, ws))
            for i in ids:
                v = np.asarray(td.get_voltage(i)(ts), dtype=float)
                c = np.asarray(td.get_current(i)(ts), dtype=float)
                p = np.asarray(td.get_power(i)(ts), dtype=float)
                ev = tf([s[0]['v'][i] for s in sols])
                ec = tf([s[0]['i'][i] for s in sols])
                if np.max(np.abs(v - ev)) > tol * scale_v or np.max(np.abs(c - ec)) > tol * scale_i:
                    ctx.violation('C09:wrong-time-function', f'{i!r}: v {v} vs {ev}; i {c} vs {ec}', rep)
                    break
                if np.max(np.abs(p - v * c)) > 1e-9 * (1 + np.max(np.abs(p))):
                    ctx.violation('C09:time-power-not-v-times-i', f'{i!r}', rep)
                    break
            for nlab in nodes:
                ph = np.asarray(td.get_potential(nlab)(ts), dtype=float)
                if np.max(np.abs(ph - tf([s[0]['phi'][nlab] for s in sols]))) > tol * scale_v:
                    ctx.violation('C09:wrong-time-function', f'potential {nlab!r}', rep)
                    break
            # the same instants given as integers (an integer array, a list of ints, one int) denote the same times
            tfl = np.array([0.0, 1.0, 2.0, 3.0, 7.0])
            for i in ids[:4]:
                for getter, sc in ((td.get_voltage, scale_v), (td.get_current, scale_i)):
                    f = getter(i)
                    want = np.asarray(f(tfl), dtype=float)
                    forms = {'integer array': np.asarray(f(tfl.astype(int)), dtype=float), 'list of ints': np.asarray(f([0, 1, 2, 3, 7]), dtype=float),
                             'single ints': np.array([float(f(k)) for k in (0, 1, 2, 3, 7)]),
                             'single floats': np.array([float(f(float(k))) for k in (0, 1, 2, 3, 7)])}
                    for form, got in forms.items():
                        if got.shape != want.shape or np.max(np.abs(got - want)) > tol * sc:
                            ctx.violation('C09:time-function-depends-on-the-type-of-the-instants',
                                          f'{i!r} {getter.__name__}: at t = 0, 1, 2, 3, 7 given as {form}: {got} but as a float array {want}', rep)
                            break
            # KCL at every instant on first->second flows.  The library reports a lossy source that is active at a frequency
            # in generator direction (minus the flow); the direction flag of every element at every analysed frequency is
            # read off the declarative law.  If one element's flag differs between frequencies its time function mixes two
            # reference directions (known limitation, keyed separately).
            flags = {b['id']: {bool(s[0]['laws'][b['id']][3]) for s in sols} for b in sols[0][1]['branches']}
            switching = sorted(i for i, f in flags.items() if len(f) > 1)
            for nlab in nodes:
                tot = np.zeros_like(ts)
                for b in sols[0][1]['branches']:
                    cur = np.asarray(td.get_current(b['id'])(ts), dtype=float) * (-1 if True in flags[b['id']] else 1)
                    if b['n1'] == nlab:
                        tot += cur
                    if b['n2'] == nlab:
                        tot -= cur
                if np.max(np.abs(tot)) > tol * scale_i * max(4, len(ids)):
                    if switching:
                        ctx.violation('C09:lossy-source-direction-switches-between-frequencies',
                                      f'elements {switching} are reported in generator direction at the frequencies where they are '
                                      f'active and in passive direction elsewhere; KCL residual {tot} at node {nlab!r}', rep)
                    else:
                        ctx.violation('C09:kcl-violated-in-time-domain', f'KCL residual {tot} at node {nlab!r} at t={ts}', rep)
                    break
        except Exception as e:  # noqa: BLE001
            ctx.violation(f'C09:TimeDomainSolution-raises-{type(e).__name__}', str(e)[:200], rep)
    # ---- correspondence of the spectral lines with the model
    if line_jobs:
        mres = circrun.model_complex(line_jobs)
        for (k, kk, fd, ids, sv, si, tol, rep), m in zip(line_ix, mres):
            if 'exc' in m:
                ctx.violation('correspondence:C09-line', f'model {m["exc"]} at line {kk}', rep, kind='obligation')
                continue
            for i in ids:
                X = fd.get_voltage(i)[1][kk]
                I = fd.get_current(i)[1][kk]
                rv, ri = m['v'][i], m['i'][i]
                if rv[0] != 'ok' or ri[0] != 'ok' or abs(X - netrun.cq_to_c(rv[1])) > tol * sv or abs(I - netrun.cq_to_c(ri[1])) > tol * si:
                    ctx.violation('correspondence:C09-line', f'{i!r} line {kk}: impl {X},{I} model {rv},{ri}', rep, kind='obligation')
                    break


def sols_lin(b, case):
    """is the component a lossy source (reported in generator direction at its own frequency)?"""
    for c in case['components']:
        if c['id'] == b['id']:
            p = c['params']
            if c['kind'].endswith('voltage_source'):
                return p.get('R', 0) != 0 or (c['kind'] == 'complex_voltage_source' and p['Z'] != [0.0, 0.0])
            if c['kind'].endswith('current_source'):
                return p.get('G', 0) != 0
    return False


def run(ctx):
    ctx.trusted = TRUSTED
    ctx.assumptions = ['reproduction of a periodic source\'s own waveform up to truncation is not checked here (analytic; C08)']
    if standard_prologue(ctx):
        rng = random.Random(ctx.seed + 9)
        n = 120 if ctx.tier == "quick" else 1500
        examine(ctx, [gen_case(rng) for _ in range(n)], n_near=150 if ctx.tier == 'quick' else 4000)
    return RULE


def replay(ctx, obj):
    ctx.trusted = TRUSTED
    if standard_prologue(ctx):
        c = obj['case']
        examine(ctx, [(c['circuit'], c['w_max'])])
    return RULE
