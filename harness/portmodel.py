"""C06 correspondence: the implementation's port functions vs the extracted Coq model (Model/Port.v, runner fn 6).

open_circuit_impedance / element_impedance / open_circuit_voltage / short_circuit_current are run on random
well-posed networks, node pairs (identical nodes, pairs across an ideal voltage source, nodes hanging on open
branches, and now and then a label that is not in the network) and elements (also an unknown id).  Compared:
the exception class, inf/nan (implementation) vs None (model), finite values to max(1e-9, cond*1e-13) relative."""
import math

import numpy as np

import netgen
import netrun
from common import Toks, run_model, t_label, ERR_NAMES
from exact import spec_solution

OPS = {'open_circuit_impedance': 1, 'element_impedance': 2, 'open_circuit_voltage': 3, 'short_circuit_current': 4}
KINDS = ['R', 'R', 'G', 'Z', 'Y', 'V', 'I', 'LV', 'LI', 'open', 'load', 'short']


def tok_job(case, op, args):
    t = [6, OPS[op]] + netgen.tok_network(case)
    for a in args:
        t += t_label(a)
    return t


def decode(toks):
    t = Toks(toks)
    tag = t.z()
    if tag == 1:
        return {'exc': ERR_NAMES.get(t.z(), 'Other')}
    if tag != 0:
        return {'exc': f'codec{tag}'}
    some = t.z()
    if some == 0:
        return {'val': None}
    re, im = t.c()
    return {'val': complex(float(re), float(im)), 'exact': (re, im)}


def impl_call(case, op, args):
    from CircuitCalculator.Network.NodalAnalysis import node_analysis as na
    from CircuitCalculator.Network.NodalAnalysis import bias_point_analysis as bpa
    f = {'open_circuit_impedance': na.open_circuit_impedance, 'element_impedance': na.element_impedance,
         'open_circuit_voltage': bpa.open_circuit_voltage, 'short_circuit_current': bpa.short_circuit_current}[op]
    try:
        net = netgen.impl_network(case)
    except Exception as e:  # noqa: BLE001
        return {'exc': 'input:' + type(e).__name__}
    try:
        v = f(net, *args)
    except Exception as e:  # noqa: BLE001 - the class is the observable
        return {'exc': type(e).__name__}
    v = complex(v)
    if not (math.isfinite(v.real) and math.isfinite(v.imag)):
        return {'val': None}
    return {'val': v}


def probed_case(case, a, b):
    """the network whose nodal system open_circuit_impedance solves (declaratively deactivated, probe attached)"""
    import c06
    z = c06.zeroed(case)
    return {'zero': b, 'branches': z['branches'] + [{'id': '\x00p', 'n1': b, 'n2': a, 'ctor': 'current_source',
                                                     'args': [[1.0, 0.0], [0.0, 0.0]]}]}


def ideal_between(case, a, b):
    return any({x['n1'], x['n2']} == {a, b} and (x['ctor'] == 'short_circuit' or
               (x['ctor'] == 'voltage_source' and x['args'][1] == [0.0, 0.0])) for x in case['branches'])


def jobs_for(case, rng):
    nodes = sorted({b['n1'] for b in case['branches']} | {b['n2'] for b in case['branches']})
    pairs = [(a, b) for a in nodes for b in nodes]
    rng.shuffle(pairs)
    pairs = pairs[:5]
    for x in case['branches']:                       # across an ideal source / a short
        if ideal_between(case, x['n1'], x['n2']) and rng.random() < 0.5:
            pairs.append((x['n1'], x['n2']))
    if rng.random() < 0.15:
        pairs.append((rng.choice(nodes), '∅none'))
    if rng.random() < 0.15:
        pairs.append(('∅none', rng.choice(nodes)))
    out = []
    for a, b in pairs:
        out.append(('open_circuit_impedance', (a, b)))
        if rng.random() < 0.5:
            out.append(('open_circuit_voltage', (a, b)))
        if rng.random() < 0.6:
            out.append(('short_circuit_current', (a, b)))
    ids = [x['id'] for x in case['branches']]
    for i in rng.sample(ids, min(3, len(ids))):
        out.append(('element_impedance', (i,)))
    if rng.random() < 0.15:
        out.append(('element_impedance', ('∅none',)))
    return out


def port_of(case, op, args):
    """(network, node1, node2) of the impedance computation behind the call, or None"""
    if op == 'element_impedance':
        hit = [x for x in case['branches'] if x['id'] == args[0]]
        if not hit:
            return None
        rest = {'zero': case['zero'], 'branches': [x for x in case['branches'] if x is not hit[-1]]}
        return rest, hit[-1]['n1'], hit[-1]['n2']
    return case, args[0], args[1]


def correspond(ctx, rng):
    quick = ctx.tier == 'quick'
    want = 150 if quick else 2500
    cases = []
    tries = 0
    while len(cases) < want and tries < 40 * want:
        tries += 1
        c = netgen.random_network(rng, max_nodes=5, max_branches=8, kinds=KINDS)
        if spec_solution(c) is None:
            continue
        cases.append(c)
    for c in netgen.corpus_networks():
        if spec_solution(c) is not None:
            cases.append({'zero': c['zero'], 'branches': c['branches']})
    work = []
    for c in cases:
        for op, args in jobs_for(c, rng):
            work.append((c, op, args))
    outs = run_model([tok_job(c, op, args) for c, op, args in work])
    model_z = {(id(c), args): decode(t) for (c, op, args), t in zip(work, outs) if op == 'open_circuit_impedance'}
    for (case, op, args), toks in zip(work, outs):
        ctx.evaluations += 1
        rep = {'network': case, 'function': op, 'args': list(args)}
        model = decode(toks)
        impl = impl_call(case, op, args)
        key = f'correspondence:C06-{op}'
        if 'exc' in model and model['exc'].startswith('codec'):
            ctx.violation(key + '-codec', f'model runner could not decode the case ({model["exc"]})', rep, kind='obligation')
            continue
        if ('exc' in impl) != ('exc' in model):
            ctx.violation(key + '-outcome', f'{op}{args}: implementation {impl}, model {model}', rep, kind='obligation')
            continue
        if 'exc' in impl:
            ctx.count('corr:exception-agreed')
            if impl['exc'] != model['exc']:
                ctx.violation(key + '-exception-class', f'{op}{args}: implementation raises {impl["exc"]}, model {model["exc"]}',
                              rep, kind='obligation')
            continue
        # conditioning of the systems behind the call
        cond = 1.0
        pt = port_of(case, op, args)
        zero_through_solve = False
        if op != 'open_circuit_voltage' and pt is not None:
            pc, a, b = pt
            if a != b and not ideal_between(pc, a, b):
                cond = max(cond, netrun.mna_cond(probed_case(pc, a, b)))
        if op in ('open_circuit_voltage', 'short_circuit_current'):
            cond = max(cond, netrun.mna_cond(case))
        if not math.isfinite(cond) or cond > 1e8:
            # a singular or nearly singular float system: LinAlgError is not raised reliably, nothing to compare
            if (impl['val'] is None) == (model['val'] is None):
                ctx.count('corr:agreed-on-ill-conditioned')
            else:
                ctx.count('corr:ill-conditioned(skipped)')
            continue
        tol = max(1e-9, cond * 1e-13)
        if op == 'short_circuit_current' and args[0] != args[1] and not ideal_between(case, *args):
            mz = model_z.get((id(case), args), {})
            if mz.get('val') is not None and mz['val'] == 0:
                # exact Z = 0 reached through the solver: the float Z is a rounding residue, V/Z is meaningless
                ctx.count('corr:division-by-rounded-zero(skipped)')
                continue
        if (impl['val'] is None) != (model['val'] is None):
            ctx.violation(key + '-finiteness', f'{op}{args}: implementation {impl["val"]}, model {model["val"]} (None = inf/nan)',
                          rep, kind='obligation')
            continue
        if impl['val'] is None:
            ctx.count('corr:inf-agreed')
            continue
        g, w = impl['val'], model['val']
        scale = max(abs(w), 1e-12)
        if op == 'open_circuit_voltage':
            scale = max(scale, netrun.scales(spec_solution(case), case)[0])
        if op == 'short_circuit_current':
            tol *= 10
            sv = netrun.scales(spec_solution(case), case)[0]
            zz = impl_call(case, 'open_circuit_impedance', args).get('val')
            if zz:
                scale = max(scale, sv / abs(zz))
        if abs(w) == 0:
            ok = abs(g) <= tol * (scale if op != 'open_circuit_impedance' and op != 'element_impedance' else 1.0)
        else:
            ok = abs(g - w) <= tol * scale
        if ok:
            ctx.count('corr:value-agreed')
        else:
            ctx.violation(key + '-value', f'{op}{args}: implementation {g}, model {w} (tol {tol:.1e}, cond {cond:.1e})', rep,
                          kind='obligation')
    ctx.count('corr:jobs', len(work))
