"""Circuit layer: implementation drivers, model drivers, comparison helpers."""
import numpy as np

from common import Toks, run_model, t_q, ERR_NAMES
import circgen
import netgen
import trfrun
import netrun


def build_impl(case):
    """-> (circuit, components) or raises"""
    comps = [circgen.impl_component(c) for c in case['components']]
    from CircuitCalculator.Circuit.circuit import Circuit
    return Circuit(comps), comps


def impl_transform(case, w, res, via_list=False):
    """transform_circuit(circuit, w, res), or the list variant transform(circuit, [w0, w], w_resolution=res)[1]"""
    try:
        circuit, comps = build_impl(case)
    except Exception as e:  # noqa: BLE001
        return {'exc': type(e).__name__, 'stage': 'construct', 'msg': str(e)[:200]}, None
    from CircuitCalculator.Circuit.circuit import transform_circuit, transform
    try:
        if via_list:
            nets = transform(circuit, [w + 1.0, w], w_resolution=res)
            if len(nets) != 2:
                return {'exc': 'WrongNumberOfNetworks', 'stage': 'transform'}, comps
            net = nets[1]
        else:
            net = transform_circuit(circuit, w, res)
        return {'net': netgen.network_to_case(net)}, comps
    except Exception as e:  # noqa: BLE001
        return {'exc': type(e).__name__, 'stage': 'transform', 'msg': str(e)[:200]}, comps


def placeholder_comps(case):
    """component objects for tokenising when the implementation refused to construct the circuit: build each
    component alone (Circuit-level errors are then modelled from the token list)"""
    out = []
    for c in case['components']:
        out.append(circgen.impl_component(c))
    return out


def model_transform(jobs):
    """jobs: list of (case, impl_comps, w, res)"""
    lines = []
    for case, comps, w, res in jobs:
        lines.append([3] + circgen.tok_circuit(case, comps, w) + t_q(w) + t_q(res))
    outs = run_model(lines)
    return [trfrun.decode_transform(o) for o in outs]


def impl_complex(case, w, peak):
    try:
        circuit, comps = build_impl(case)
    except Exception as e:  # noqa: BLE001
        return {'exc': type(e).__name__, 'stage': 'construct'}, None
    from CircuitCalculator.Circuit.solution import ComplexSolution
    from CircuitCalculator.Circuit.circuit import transform_circuit
    try:
        # the flag in the forms callers pass it (a Python bool, the numpy bool of a comparison, 0 / 1); chosen by the frequency, so a replay
        # reproduces it
        flag = [bool(peak), np.bool_(peak), int(bool(peak))][int(abs(w) * 1000) % 3]
        sol = ComplexSolution(circuit, w=w, peak_values=flag)
        net = sol._solution.network
        out = {'phi': {}, 'v': {}, 'i': {}, 'p': {}}
        for n in net.node_labels:
            out['phi'][n] = complex(sol.get_potential(n))
        for b in net.branches:
            out['v'][b.id] = complex(sol.get_voltage(b.id))
            out['i'][b.id] = complex(sol.get_current(b.id))
            out['p'][b.id] = complex(sol.get_power(b.id))
        sv = sol._solution._solution_vector
        out['zero_fallback'] = (not np.any(sv)) if np.size(sv) else False
        return out, comps
    except Exception as e:  # noqa: BLE001
        return {'exc': type(e).__name__, 'stage': 'solve', 'msg': str(e)[:200]}, comps


def impl_dc(case):
    try:
        circuit, comps = build_impl(case)
    except Exception as e:  # noqa: BLE001
        return {'exc': type(e).__name__, 'stage': 'construct'}, None
    from CircuitCalculator.Circuit.solution import DCSolution
    try:
        sol = DCSolution(circuit)
        net = sol._solution.network
        out = {'phi': {}, 'v': {}, 'i': {}, 'p': {}}
        for n in net.node_labels:
            out['phi'][n] = float(sol.get_potential(n))
        for b in net.branches:
            out['v'][b.id] = float(sol.get_voltage(b.id))
            out['i'][b.id] = float(sol.get_current(b.id))
            out['p'][b.id] = float(sol.get_power(b.id))
        return out, comps
    except Exception as e:  # noqa: BLE001
        return {'exc': type(e).__name__, 'stage': 'solve', 'msg': str(e)[:200]}, comps


SQRT2 = float(np.sqrt(2))


def model_complex(jobs):
    """jobs: (case, comps, w, peak)"""
    lines = [[4] + circgen.tok_circuit(case, comps, w) + t_q(w) + t_q(1e-3) + [1 if peak else 0] + t_q(SQRT2)
             for case, comps, w, peak in jobs]
    return [netrun.decode_solve(o) for o in run_model(lines)]


def decode_dc(toks):
    t = Toks(toks)
    tag = t.z()
    if tag == 1:
        return {'exc': ERR_NAMES.get(t.z(), 'Other')}
    if tag != 0:
        return {'exc': f'codec{tag}'}
    out = {'phi': {}, 'v': {}, 'i': {}, 'p': {}}

    def node():
        l = t.label()
        out['phi'][l] = t.res(t.q)
    t.lst(node)

    def br():
        l = t.label()
        out['v'][l] = t.res(t.q)
        out['i'][l] = t.res(t.q)
        out['p'][l] = t.res(t.q)
    t.lst(br)
    return out


def model_dc(jobs):
    lines = [[5] + circgen.tok_circuit(case, comps, 0.0) + t_q(1e-3) for case, comps in jobs]
    return [decode_dc(o) for o in run_model(lines)]


def model_frequencies(jobs):
    """jobs: (case, comps, wmax)"""
    lines = [[9] + circgen.tok_circuit(case, comps, None) + t_q(wmax) for case, comps, wmax in jobs]
    outs = []
    for o in run_model(lines):
        t = Toks(o)
        outs.append(t.res(lambda: t.lst(t.q)))
    return outs
