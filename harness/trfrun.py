"""Network transformers: implementation driver, model driver, comparison."""
from fractions import Fraction

from common import Toks, run_model, t_label, t_list, ERR_NAMES
import netgen

OPS = {'switch_ground_node': 1, 'remove_element': 2, 'remove_open_circuit_elements': 3,
       'remove_short_circuit_elements': 4, 'short_circuitify_voltage_sources': 5,
       'open_circuitify_current_sources': 6, 'remove_ideal_current_sources': 7,
       'remove_ideal_voltage_sources': 8, 'passive_network': 9}
KEEP_OPS = {4, 5, 6, 7, 8, 9}


def impl_transform(case, op, arg):
    """arg: label for ops 1,2; list of case-branches (elements) for keep-ops; None for op 3.
    Returns {'net': case-form network} or {'exc': class name}; also records whether the input was mutated."""
    from CircuitCalculator.Network import transformers as trf
    try:
        net = netgen.impl_network(case)
    except Exception as e:  # noqa: BLE001
        return {'exc': 'input:' + type(e).__name__}
    before = netgen.network_to_case(net)
    ids_before = [id(b) for b in net.branches]
    try:
        f = getattr(trf, op)
        if OPS[op] in (1,):
            out = f(net, arg)
        elif OPS[op] == 2:
            out = f(net, arg)
        elif OPS[op] == 3:
            out = f(net)
        else:
            keep = [netgen.impl_element(k) for k in arg]
            keep_snapshot = [netgen.element_to_case(k) for k in keep]
            out = f(net, keep=keep)
            if [netgen.element_to_case(k) for k in keep] != keep_snapshot:
                return {'exc': 'MUTATED-keep'}
        res = {'net': netgen.network_to_case(out)}
        res['input_raw'] = before
    except Exception as e:  # noqa: BLE001
        res = {'exc': type(e).__name__}
    after = netgen.network_to_case(net)
    if after != before or ids_before != [id(b) for b in net.branches]:
        res['mutated_input'] = True
    return res


def tok_transform(case, op, arg):
    t = [2, OPS[op]] + netgen.tok_network(case)
    if OPS[op] in (1, 2):
        t += t_label(arg)
    elif OPS[op] in KEEP_OPS:
        t += t_list(arg, netgen.tok_elem)
    return t


def decode_network(t):
    zero = t.label()

    def br():
        n1 = t.label()
        n2 = t.label()
        cls = t.z()
        name = t.label()
        kind = t.z()
        a = t.c()
        b = t.c()
        return {'id': name, 'n1': n1, 'n2': n2, 'ctor': 'raw_zv' if cls == 0 else 'raw_yi',
                'kind': netgen.KIND_NAME.get(kind, '?'), 'args_exact': [a, b]}
    return {'zero': zero, 'branches': t.lst(br)}


def decode_transform(toks):
    t = Toks(toks)
    tag = t.z()
    if tag == 1:
        return {'exc': ERR_NAMES.get(t.z(), 'Other')}
    if tag != 0:
        return {'exc': f'codec{tag}'}
    return {'net': decode_network(t)}


def model_transform(jobs):
    outs = run_model([tok_transform(c, op, arg) for c, op, arg in jobs])
    return [decode_transform(o) for o in outs]


def close(x, q, rel=1e-10):
    """float x vs exact Fraction q"""
    qf = float(q)
    return abs(x - qf) <= rel * max(1.0, abs(qf), abs(x))


def compare_networks(impl, model):
    """exact structural comparison of an implementation network (case form) with the model's"""
    if ('exc' in impl) != ('exc' in model):
        return f'impl {impl.get("exc", "returned")} vs model {model.get("exc", "returned")}'
    if 'exc' in impl:
        return None if impl['exc'] == model['exc'] else f'exception class: impl {impl["exc"]} model {model["exc"]}'
    a, b = impl['net'], model['net']
    if a['zero'] != b['zero']:
        return f'reference label {a["zero"]!r} vs {b["zero"]!r}'
    if len(a['branches']) != len(b['branches']):
        return f'branch count {len(a["branches"])} vs {len(b["branches"])}: {[x["id"] for x in a["branches"]]} vs {[x["id"] for x in b["branches"]]}'
    for x, y in zip(a['branches'], b['branches']):
        for k in ('id', 'n1', 'n2', 'ctor', 'kind'):
            if x[k] != y[k]:
                return f'branch {x["id"]!r}: {k} {x[k]!r} vs {y[k]!r}'
        for va, vb in zip(x['args'], y['args_exact']):
            if not (close(va[0], vb[0]) and close(va[1], vb[1])):
                return f'branch {x["id"]!r}: value {va} vs {vb}'
    return None
