"""C03 — results are independent of names, listing order, reference node, terminal order."""
import copy
import random

import c01
import netgen
import netrun
from common import standard_prologue
from exact import spec_solution, law_of

RULE = ('cases = well-posed networks (C01 random stream, label pool interleaving kinds) x four transformations: bijective '
        'renaming of nodes and ids (drawn to change the relative sort order, e.g. current source renamed above a voltage '
        'source, "10" vs "9"), random permutation of the branch list, reversal of a random subset of branches (source values '
        'negated), every other reference node.  Both the pairwise relation on the implementation and the model agreement '
        'on the transformed network are checked.  Circuit-level (state-space, transient, impedance) relations are exercised '
        'by c03_circuit.  distinct = canonical network + transformation; non-trivial = well-posed, >=1 source, >=2 '
        'non-reference nodes')

TRUSTED = c01.TRUSTED

RENAME_NODES = ['Z9', 'a0', '10', '9', '1', '0', 'Ω', 'A', 'zz', 'm', 'M', '#', '~', '00', 'b']
RENAME_IDS = ['Vs', 'Is', 'A', 'a', 'L', 'R', '1', '10', '9', 'zz', 'Ω', 'Z0', 'B', '_x', 'q', 'Q', 'U', 'I', '0', '~']


def rename(case, rng):
    nodes = sorted({b['n1'] for b in case['branches']} | {b['n2'] for b in case['branches']} | {case['zero']})
    ids = [b['id'] for b in case['branches']]
    if len(nodes) > len(RENAME_NODES) or len(ids) > len(RENAME_IDS):
        nm = {n: f'n{k}' for k, n in enumerate(rng.sample(nodes, len(nodes)))}
        im = {i: f'e{k}' for k, i in enumerate(rng.sample(ids, len(ids)))}
    else:
        nm = dict(zip(nodes, rng.sample(RENAME_NODES, len(nodes))))
        im = dict(zip(ids, rng.sample(RENAME_IDS, len(ids))))
    c = copy.deepcopy(case)
    c['zero'] = nm[c['zero']]
    for b in c['branches']:
        b['n1'], b['n2'], b['id'] = nm[b['n1']], nm[b['n2']], im[b['id']]
    return c, nm, im


def permute(case, rng):
    c = copy.deepcopy(case)
    rng.shuffle(c['branches'])
    return c


def reverse(case, rng):
    c = copy.deepcopy(case)
    rev = set()
    for b in c['branches']:
        if rng.random() < 0.5:
            rev.add(b['id'])
            b['n1'], b['n2'] = b['n2'], b['n1']
            if b['ctor'] in ('voltage_source', 'current_source'):
                b['args'][0] = [-b['args'][0][0], -b['args'][0][1]]
    return c, rev


def reground(case, g):
    c = copy.deepcopy(case)
    c['zero'] = g
    return c


def check_pair(ctx, kind, case, base, tcase, nm, im, rev, shift_node, tol, sv, si, sp, extra):
    r = netrun.impl_solve(tcase)
    if 'exc' in r:
        ctx.violation(f'C03:{kind}-raises', f'{kind}: transformed network raises {r["exc"]}', dict(network=case, **extra))
        return r
    shift = base['phi'][shift_node] if shift_node is not None else 0
    for n, x in base['phi'].items():
        y = r['phi'][nm.get(n, n)]
        if abs(y - (x - shift)) > tol * sv:
            ctx.violation(f'C03:{kind}-potential', f'{kind}: potential of {n!r}: {x} vs transformed {y} (shift {shift})',
                          dict(network=case, **extra))
            return r
    for b in case['branches']:
        i = b['id']
        j = im.get(i, i)
        s = -1 if i in rev else 1
        if abs(r['v'][j] - s * base['v'][i]) > tol * sv or abs(r['i'][j] - s * base['i'][i]) > tol * si \
                or abs(r['p'][j] - base['p'][i]) > tol * sp * 4:
            ctx.violation(f'C03:{kind}-branch', f'{kind}: branch {i!r}: v {base["v"][i]} -> {r["v"][j]}, i {base["i"][i]} -> {r["i"][j]}, '
                          f'p {base["p"][i]} -> {r["p"][j]}', dict(network=case, **extra))
            return r
    return r


def examine_case(ctx, case, rng, model_jobs):
    exact = spec_solution(case)
    if exact is None:
        ctx.count('ill-posed(excluded)')
        return
    cond = netrun.mna_cond(case)
    if cond > 1e7:
        ctx.count('ill-conditioned(skipped)')
        return
    base = netrun.impl_solve(case)
    if 'exc' in base:
        ctx.violation('C03:base-raises', f'well-posed network raises {base["exc"]}', {'network': case})
        return
    ctx.evaluations += 1
    sv, si, sp = netrun.scales(exact, case)
    tol = max(1e-9, cond * 2e-14) * 16
    t1, nm, im = rename(case, rng)
    check_pair(ctx, 'rename', case, base, t1, nm, im, set(), None, tol, sv, si, sp, {'node_map': nm, 'id_map': im})
    t2 = permute(case, rng)
    check_pair(ctx, 'permute', case, base, t2, {}, {}, set(), None, tol, sv, si, sp, {'order': [b['id'] for b in t2['branches']]})
    t3, rev = reverse(case, rng)
    check_pair(ctx, 'reverse', case, base, t3, {}, {}, rev, None, tol, sv, si, sp, {'reversed': sorted(rev)})
    nodes = sorted({b['n1'] for b in case['branches']} | {b['n2'] for b in case['branches']})
    for g in nodes:
        if g != case['zero']:
            t4 = reground(case, g)
            # re-grounding changes the conditioning of the nodal matrix; use the worse of the two
            c4 = netrun.mna_cond(t4)
            if c4 > 1e7:
                continue
            check_pair(ctx, 'reground', case, base, t4, {}, {}, set(), g, max(tol, c4 * 2e-14 * 16), sv + abs(base['phi'][g]), si, sp, {'new_reference': g})
    model_jobs += [t1, t2, t3]
    if c01.has_source(case) and len(nodes) >= 3:
        ctx.nontriv([netgen.canon(case), sorted(nm.items()), sorted(rev)])
    ctx.sample({'network': case, 'node_map': nm, 'id_map': im, 'reversed': sorted(rev)}, cap=3)


def run(ctx):
    ctx.trusted = TRUSTED
    ctx.assumptions = ['LAPACK backward stability']
    if standard_prologue(ctx):
        rng = random.Random(ctx.seed + 3)
        n = 400 if ctx.tier == 'quick' else 6000
        model_jobs = []
        for c in netgen.corpus_networks():
            examine_case(ctx, c, rng, model_jobs)
        for _ in range(n):
            case = netgen.random_network(rng, max_nodes=6, max_branches=10)
            examine_case(ctx, case, rng, model_jobs)
        # model agreement on the transformed descriptions (the theorems are about the model functions)
        tagged = [('transformed', c) for c in model_jobs[: (600 if ctx.tier == 'quick' else 6000)]]
        sub = type(ctx)(ctx.prop, ctx.tier, ctx.seed)
        c01.examine(sub, tagged)
        for v in sub.violations:
            if v['kind'] != 'input':
                ctx.violation(v['key'].replace('C01', 'C03'), v['what'], v['replay'], kind=v['kind'])
        ctx.extra['model_runs_on_transformed_networks'] = len(tagged)
        try:
            import c03_circuit
            c03_circuit.examine(ctx)
        except ImportError:
            ctx.partial.append('state-space / transient / port-impedance relations not yet exercised here (see C06, C10, C12)')
    return RULE


def replay(ctx, obj):
    ctx.trusted = TRUSTED
    if standard_prologue(ctx):
        if 'network' in obj['case']:
            examine_case(ctx, obj['case']['network'], random.Random(ctx.seed + 3), [])
        else:
            import c03_circuit
            c03_circuit.replay(ctx, obj)
    return RULE
